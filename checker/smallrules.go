package main

import (
	"fmt"
	"go/ast"
	"go/token"
	"go/types"
	"strings"

	"golang.org/x/tools/go/types/typeutil"
)

// geometricAccumulation: C04-D5 — in a loop, `s += f(…s…)` appends a function of the whole
// accumulated value to itself: the size at least doubles per iteration.
func geometricAccumulation(c *Ctx, ds []*declInfo) {
	const R = "geometric-accumulation"
	c.rule(R, "inside a loop no string/slice accumulator is extended by an expression that contains the accumulator itself (s += g(s)): output size would be exponential in the number of elements")
	n := 0
	for _, d := range ds {
		ast.Inspect(d.fd.Body, func(x ast.Node) bool {
			var body *ast.BlockStmt
			switch l := x.(type) {
			case *ast.RangeStmt:
				body = l.Body
			case *ast.ForStmt:
				body = l.Body
			default:
				return true
			}
			ast.Inspect(body, func(y ast.Node) bool {
				as, ok := y.(*ast.AssignStmt)
				if !ok || len(as.Lhs) != 1 || len(as.Rhs) != 1 {
					return true
				}
				acc := objOf(d.pkg, as.Lhs[0])
				if acc == nil || !declaredOutside(acc, x) {
					return true
				}
				t := acc.Type().Underlying()
				if b, isB := t.(*types.Basic); !(isB && b.Info()&types.IsString != 0) {
					if _, isSl := t.(*types.Slice); !isSl {
						return true
					}
				}
				uses := 0
				ast.Inspect(as.Rhs[0], func(z ast.Node) bool {
					if id, ok := z.(*ast.Ident); ok && objOf(d.pkg, id) == acc {
						uses++
					}
					return true
				})
				geometric := (as.Tok == token.ADD_ASSIGN && uses >= 1) || (as.Tok == token.ASSIGN && uses >= 2)
				if !geometric {
					return true
				}
				n++
				c.bad(R, d.name+"#"+types.TypeString(acc.Type(), func(p *types.Package) string { return p.Name() })+"-accumulator", c.P.Pos(as.Pos()), fmt.Sprintf("inside a loop %s is extended by %s, which contains %s itself: the value doubles on every iteration, so n elements produce about 2^n bytes — parsing time and memory are exponential in the input size", acc.Name(), types.ExprString(as.Rhs[0]), acc.Name()))
				return true
			})
			return true
		})
	}
	if n == 0 {
		c.ok(R, "parsers", "-", "no self-referential accumulation in a loop")
	}
}

// diffHelpers: C14 helper rules.
func diffHelpers(c *Ctx) {
	const R = "diff-helper-semantics"
	c.rule(R, "the diff helpers test membership only (comma-ok lookups / contains): no counting, decrementing or deleting of index entries (set semantics); diffMap compares values of common keys; diffDates compares at the same granularity (Unix seconds) as the equality encoding; diffSlice/diffList append to `added` elements of the second operand absent from the first and to `removed` the converse")
	for _, fname := range []string{"sbom.diffList", "sbom.diffSlice", "sbom.diffMap"} {
		d := c.decl(R, fname)
		if d == nil {
			continue
		}
		bad := ""
		var pos token.Pos
		ast.Inspect(d.fd.Body, func(x ast.Node) bool {
			switch s := x.(type) {
			case *ast.IncDecStmt:
				if _, ok := s.X.(*ast.IndexExpr); ok {
					bad, pos = "an index entry is incremented/decremented", s.Pos()
				}
			case *ast.AssignStmt:
				if s.Tok != token.ASSIGN && s.Tok != token.DEFINE {
					for _, l := range s.Lhs {
						if _, ok := l.(*ast.IndexExpr); ok {
							bad, pos = "an index entry is updated arithmetically", s.Pos()
						}
					}
				}
			case *ast.CallExpr:
				if id, ok := s.Fun.(*ast.Ident); ok && id.Name == "delete" {
					bad, pos = "index entries are deleted while matching", s.Pos()
				}
			}
			return true
		})
		// both directions are always computed: no return before the scans that fill the added and
		// the removed result have run (an "nothing new, so nothing removed" shortcut reasons about
		// lengths, which only holds for duplicate-free lists)
		{
			var lastFill token.Pos
			resultNames := map[string]bool{}
			if d.fd.Type.Results != nil {
				for _, f := range d.fd.Type.Results.List {
					for _, nm := range f.Names {
						resultNames[nm.Name] = true
					}
				}
			}
			for _, st := range d.fd.Body.List {
				loop, isLoop := st.(*ast.RangeStmt)
				if !isLoop {
					continue
				}
				fills := false
				ast.Inspect(loop.Body, func(x ast.Node) bool {
					if as, ok := x.(*ast.AssignStmt); ok {
						for _, l := range as.Lhs {
							if o := baseObj(d, l); o != nil && resultNames[o.Name()] {
								fills = true
							}
						}
					}
					return true
				})
				if fills && loop.End() > lastFill {
					lastFill = loop.End()
				}
			}
			early := token.NoPos
			ast.Inspect(d.fd.Body, func(x ast.Node) bool {
				rs, ok := x.(*ast.ReturnStmt)
				if !ok || !lastFill.IsValid() || rs.Pos() > lastFill {
					return true
				}
				// a fast path for "both operands empty" returns what the scans would have produced
				if pnames := paramNames(d); len(pnames) == 2 {
					for _, y := range enclosing(d.fd.Body, rs) {
						ifs, isIf := y.(*ast.IfStmt)
						if !isIf {
							continue
						}
						emptyOf := map[string]bool{}
						for _, cj := range conjuncts(ifs.Cond) {
							if subj, empty, okE := emptinessTest(c, cj); okE && empty {
								emptyOf[subj] = true
							}
						}
						if emptyOf[pnames[0]] && emptyOf[pnames[1]] {
							return true
						}
					}
				}
				// inside one of the fill loops a return would be a truncating exit as well
				early = rs.Pos()
				return true
			})
			if lastFill.IsValid() {
				c.check(!early.IsValid(), R, fname+"#both-scans", c.P.Pos(early), "no return before both result scans have run",
					fmt.Sprintf("%s returns before the scans filling its added and removed results have both run: a removal (or addition) is not reported whenever the shortcut's length argument fails, e.g. with a repeated element", fname))
			}
		}
		searchNeedsOrder(c, R, fname, d)
		c.check(bad == "", R, fname+"#set-semantics", c.P.Pos(pos), "membership tests only",
			fmt.Sprintf("%s: %s — elements are matched as a multiset, so lists that are equal as sets (a repeated entry) are reported as different", fname, bad))
		// added ← second operand \ first ; removed ← first \ second
		if len(d.fd.Type.Params.List) >= 1 {
			var p1, p2 types.Object
			var names []types.Object
			for _, f := range d.fd.Type.Params.List {
				for _, nm := range f.Names {
					names = append(names, d.pkg.TypesInfo.Defs[nm])
				}
			}
			if len(names) == 2 {
				p1, p2 = names[0], names[1]
			}
			var added, removed types.Object
			if d.fd.Type.Results != nil {
				for _, f := range d.fd.Type.Results.List {
					for _, nm := range f.Names {
						switch nm.Name {
						case "added":
							added = d.pkg.TypesInfo.Defs[nm]
						case "removed":
							removed = d.pkg.TypesInfo.Defs[nm]
						}
					}
				}
			}
			if p1 != nil && p2 != nil && added != nil && removed != nil {
				check := func(res, from, against types.Object, label string) {
					okDir := false
					found := false
					ast.Inspect(d.fd.Body, func(x ast.Node) bool {
						as, ok := x.(*ast.AssignStmt)
						if !ok || len(as.Lhs) != 1 {
							return true
						}
						lo := baseObj(d, as.Lhs[0])
						if lo != res {
							return true
						}
						if _, isLit := as.Rhs[0].(*ast.CompositeLit); isLit {
							return true
						}
						if ce, isCall := as.Rhs[0].(*ast.CallExpr); isCall {
							if id, ok := ce.Fun.(*ast.Ident); ok && id.Name == "make" {
								return true
							}
						}
						found = true
						// the enclosing range is over `from`
						var over types.Object
						for _, y := range enclosing(d.fd.Body, as) {
							if rs, ok := y.(*ast.RangeStmt); ok {
								over = objOf(d.pkg, rs.X)
							}
						}
						// the functional form: res = filter(from, func(el) bool { return <absent from against> })
						litText := ""
						if ce, isCall := as.Rhs[0].(*ast.CallExpr); isCall && over == nil {
							for _, a := range ce.Args {
								if lit, isLit := a.(*ast.FuncLit); isLit {
									litText = exprText(c.P.Fset, lit.Body)
								} else if o := objOf(d.pkg, a); o != nil && (o == from || o == against) {
									over = o
								}
							}
							if litText == "" {
								over = nil
							}
						}
						// the absence test mentions `against` (directly or through an index built from it)
						text := ""
						chain := enclosing(d.fd.Body, as)
						for i, y := range chain {
							if ifs, ok := y.(*ast.IfStmt); ok {
								text += exprText(c.P.Fset, ifs.Cond)
								if ifs.Init != nil {
									text += exprText(c.P.Fset, ifs.Init)
								}
							}
							// early-exit guards ahead of the statement in the same loop body
							if blk, ok := y.(*ast.BlockStmt); ok && i+1 < len(chain) {
								for _, st := range blk.List {
									if st == chain[i+1] {
										break
									}
									if ifs, ok := st.(*ast.IfStmt); ok && terminates(ifs.Body) {
										text += exprText(c.P.Fset, ifs.Cond)
										if ifs.Init != nil {
											text += exprText(c.P.Fset, ifs.Init)
										}
									}
								}
							}
						}
						idxOf := map[string]types.Object{}
						ast.Inspect(d.fd.Body, func(z ast.Node) bool {
							if rs, ok := z.(*ast.RangeStmt); ok {
								ast.Inspect(rs.Body, func(w ast.Node) bool {
									if a2, ok := w.(*ast.AssignStmt); ok {
										for _, l := range a2.Lhs {
											if ix, ok := l.(*ast.IndexExpr); ok {
												if o := objOf(d.pkg, ix.X); o != nil && o != added && o != removed {
													idxOf[o.Name()] = objOf(d.pkg, rs.X)
												}
											}
										}
									}
									return true
								})
							}
							return true
						})
						text += litText
						mentionsAgainst := strings.Contains(text, against.Name())
						for nm, src := range idxOf {
							if src == against && strings.Contains(text, nm+"[") {
								mentionsAgainst = true
							}
						}
						// keys and index computed by a helper from one operand: ks, idx := flatKeys(list)
						derived := map[types.Object]types.Object{}
						ast.Inspect(d.fd.Body, func(z ast.Node) bool {
							a2, ok := z.(*ast.AssignStmt)
							if !ok || len(a2.Rhs) != 1 {
								return true
							}
							ce, isCall := a2.Rhs[0].(*ast.CallExpr)
							if !isCall {
								return true
							}
							var src types.Object
							nsrc := 0
							for _, a := range ce.Args {
								if o := objOf(d.pkg, a); o != nil && (o == from || o == against) {
									src = o
									nsrc++
								}
							}
							if nsrc != 1 {
								return true
							}
							for _, l := range a2.Lhs {
								if o := objOf(d.pkg, l); o != nil && o != added && o != removed {
									derived[o] = src
								}
							}
							return true
						})
						for o, src := range derived {
							if src == against && strings.Contains(text, o.Name()+"[") {
								mentionsAgainst = true
							}
						}
						if over != nil && derived[over] == from {
							// the appended element must then be the operand's element at the ranged position
							over = from
						}
						if over == from && mentionsAgainst {
							okDir = true
						}
						return true
					})
					if found {
						c.check(okDir, R, fname+"#"+label, c.P.Pos(d.fd.Pos()), label+" = elements of "+from.Name()+" absent from "+against.Name(),
							fmt.Sprintf("%s: `%s` is not filled with the elements of %s that are absent from %s: additions and removals are confused or incomplete", fname, label, from.Name(), against.Name()))
					}
				}
				check(added, p2, p1, "added")
				check(removed, p1, p2, "removed")
			}
		}
	}
	// diffMap compares values
	if d := c.decl(R, "sbom.diffMap"); d != nil {
		cmp := false
		ast.Inspect(d.fd.Body, func(x ast.Node) bool {
			if be, ok := x.(*ast.BinaryExpr); ok && (be.Op == token.NEQ || be.Op == token.EQL) {
				l, r := objOf(d.pkg, be.X), objOf(d.pkg, be.Y)
				if l != nil && r != nil && types.Identical(l.Type(), r.Type()) {
					cmp = true
				}
			}
			return true
		})
		c.check(cmp, R, "sbom.diffMap#compares-values", c.P.Pos(d.fd.Pos()), "values of common keys are compared", "diffMap does not compare the values of keys present in both maps: a changed hash or identifier value is not reported")
	}
	dateGranularity(c, R)
}

// dateGranularity: the time accessor used to compare dates in diffDates equals the one the
// equality encoding uses for the date fields (Unix seconds).
func dateGranularity(c *Ctx, rule string) {
	timeMethods := func(fname string) map[string]bool {
		out := map[string]bool{}
		if c.decl(rule, fname) == nil {
			return out
		}
		// the function and the unexported helpers of the package it hands its dates to
		for _, d := range pkgFilter(c.reachDecls(rule, fname), "sbom.") {
			if d.name != fname && (d.obj == nil || ast.IsExported(d.obj.Name())) {
				continue
			}
			for _, cs := range callsIn(d.pkg, d.fd.Body) {
				full := cs.callee.FullName()
				if strings.HasPrefix(full, "(time.Time).") {
					switch cs.callee.Name() {
					case "Unix", "UnixNano", "UnixMilli", "UnixMicro", "Equal", "Compare", "Before", "After", "Truncate", "Round", "String", "Format":
						out[cs.callee.Name()] = true
					}
				}
			}
			// direct struct comparison of time values
			ast.Inspect(d.fd.Body, func(x ast.Node) bool {
				if be, ok := x.(*ast.BinaryExpr); ok && (be.Op == token.EQL || be.Op == token.NEQ) {
					if t := d.pkg.TypesInfo.TypeOf(be.X); t != nil && t.String() == "time.Time" {
						out["=="] = true
					}
				}
				return true
			})
		}
		return out
	}
	enc := timeMethods("sbom.(*Node).flatString")
	dif := timeMethods("sbom.diffDates")
	okEnc := len(enc) == 1 && enc["Unix"]
	okDif := len(dif) == 1 && dif["Unix"]
	c.check(okEnc, rule, "sbom.(*Node).flatString#date-granularity", "-", "dates encoded as Unix seconds", fmt.Sprintf("the equality encoding compares dates through %v, not whole seconds", keysOf(enc)))
	c.check(okDif, rule, "sbom.diffDates#date-granularity", "-", "dates compared as Unix seconds", fmt.Sprintf("diffDates compares dates through %v while the equality encoding uses whole seconds: two nodes that compare equal can have a non-empty diff", keysOf(dif)))
	_ = typeutil.Callee
}

// injectiveEncoding: C13-D4 — user-controlled strings reach the equality encoding through
// %s / + / Join next to separator literals without quoting.
func injectiveEncoding(c *Ctx) {
	const R = "injective-encoding"
	c.rule(R, "in each equality encoder, a string-typed schema field (or the string form of the visited protobuf value) is embedded with a quoting step (%q, strconv.Quote, hex/base64, a length prefix), never with a bare %s or + between separator literals: otherwise a value containing separator text encodes like a different message")
	for _, fname := range []string{"sbom.(*Node).flatString", "sbom.(*Edge).flatString", "sbom.(*Person).flatString", "sbom.(*ExternalReference).flatString"} {
		d := c.decl(R, fname)
		if d == nil {
			continue
		}
		recv, _ := recvAndParam(d)
		var sites []string
		var pos token.Pos
		ast.Inspect(d.fd.Body, func(x ast.Node) bool {
			switch s := x.(type) {
			case *ast.CallExpr:
				f, _ := typeutil.Callee(d.pkg.TypesInfo, s).(*types.Func)
				if f == nil || f.FullName() != "fmt.Sprintf" || len(s.Args) < 2 {
					return true
				}
				fv, ok := constOf(d.pkg, s.Args[0])
				if !ok || !fv.isStr() {
					return true
				}
				// map verbs to arguments
				verbs := []string{}
				fs := fv.str()
				for i := 0; i < len(fs); i++ {
					if fs[i] == '%' && i+1 < len(fs) {
						j := i + 1
						for j < len(fs) && strings.ContainsRune("+-# 0123456789.", rune(fs[j])) {
							j++
						}
						if j < len(fs) {
							if fs[j] != '%' {
								verbs = append(verbs, string(fs[j]))
							}
							i = j
						}
					}
				}
				for k, a := range s.Args[1:] {
					if k >= len(verbs) || (verbs[k] != "s" && verbs[k] != "v") {
						continue
					}
					t := d.pkg.TypesInfo.TypeOf(a)
					if t == nil {
						continue
					}
					b, isStr := t.Underlying().(*types.Basic)
					if !isStr || b.Info()&types.IsString == 0 {
						continue
					}
					// only user data: a field of the receiver / an element / the visited value
					src := types.ExprString(a)
					user := false
					if _, ok := fieldOf(d.pkg, a, recv); ok {
						user = true
					}
					if strings.Contains(src, ".flatString()") || strings.Contains(src, ".String()") || strings.Contains(src, "Identifiers[") {
						user = true
					}
					if user {
						sites = append(sites, fmt.Sprintf("%%%s of %s", verbs[k], src))
						if !pos.IsValid() {
							pos = s.Pos()
						}
					}
				}
			case *ast.BinaryExpr:
				if s.Op != token.ADD {
					return true
				}
				for _, side := range []ast.Expr{s.X, s.Y} {
					src := types.ExprString(side)
					if _, ok := fieldOf(d.pkg, side, recv); ok || strings.Contains(src, "v.String()") {
						if t := d.pkg.TypesInfo.TypeOf(side); t != nil {
							if b, isStr := t.Underlying().(*types.Basic); isStr && b.Info()&types.IsString != 0 {
								sites = append(sites, "+ of "+src)
								if !pos.IsValid() {
									pos = s.Pos()
								}
							}
						}
					}
				}
			}
			return true
		})
		if len(sites) == 0 {
			c.ok(R, fname, c.P.Pos(d.fd.Pos()), "no unquoted user string in the encoding")
		} else {
			if len(sites) > 4 {
				sites = append(sites[:4], "…")
			}
			c.bad(R, fname, c.P.Pos(pos), fmt.Sprintf("%s embeds user-controlled strings without quoting (%s): a value that contains the encoder's own separator text collides with a different message, so two different values compare equal and share a checksum", fname, strings.Join(sites, "; ")))
		}
	}
}

func paramNames(d *declInfo) []string {
	var out []string
	if d.fd.Type.Params == nil {
		return nil
	}
	for _, f := range d.fd.Type.Params.List {
		for _, nm := range f.Names {
			out = append(out, nm.Name)
		}
	}
	return out
}


// searchNeedsOrder: a membership test through a binary search (slices.BinarySearch*, sort.Search*)
// answers correctly only on a slice that is sorted in the order the search uses. The operand lists
// of a diff carry no order, so the searched slice must have been sorted in this function (or come
// from a helper every return of which is sorted) before the search.
func searchNeedsOrder(c *Ctx, R, fname string, d *declInfo) {
	k := 0
	ast.Inspect(d.fd.Body, func(x ast.Node) bool {
		ce, ok := x.(*ast.CallExpr)
		if !ok || len(ce.Args) < 2 {
			return true
		}
		f, _ := typeutil.Callee(d.pkg.TypesInfo, ce).(*types.Func)
		if f == nil || f.Pkg() == nil {
			return true
		}
		switch f.Pkg().Path() + "." + f.Name() {
		case "slices.BinarySearch", "slices.BinarySearchFunc", "sort.SearchStrings", "sort.SearchInts", "sort.SearchFloat64s":
		default:
			return true
		}
		k++
		subj := objOf(d.pkg, ce.Args[0])
		sorted := false
		if subj != nil {
			ast.Inspect(d.fd.Body, func(y ast.Node) bool {
				switch s := y.(type) {
				case *ast.CallExpr:
					if s.Pos() >= ce.Pos() || len(s.Args) < 1 || objOf(d.pkg, s.Args[0]) != subj {
						return true
					}
					if g, _ := typeutil.Callee(d.pkg.TypesInfo, s).(*types.Func); g != nil && g.Pkg() != nil {
						switch g.Pkg().Path() + "." + g.Name() {
						case "slices.Sort", "slices.SortFunc", "slices.SortStableFunc", "sort.Strings", "sort.Ints", "sort.Float64s", "sort.Slice", "sort.SliceStable":
							sorted = true
						}
					}
				case *ast.AssignStmt:
					if s.Pos() >= ce.Pos() || len(s.Rhs) != 1 {
						return true
					}
					for _, l := range s.Lhs {
						if objOf(d.pkg, l) == subj {
							if rc, isCall := s.Rhs[0].(*ast.CallExpr); isCall {
								if g, _ := typeutil.Callee(d.pkg.TypesInfo, rc).(*types.Func); g != nil && (returnsSorted(c, g) || g.FullName() == "slices.Sorted") {
									sorted = true
								}
							}
						}
					}
				}
				return true
			})
		}
		c.check(sorted, R, fmt.Sprintf("%s#search-order@%d", fname, k), c.P.Pos(ce.Pos()), "binary search over a slice sorted in this function",
			fmt.Sprintf("%s looks an element up with %s.%s in %s, which nothing has sorted: on an unsorted list the search misses elements that are present, so equal lists are reported as different (and an element can be reported as both added and removed)", fname, f.Pkg().Name(), f.Name(), types.ExprString(ce.Args[0])))
		return true
	})
}

// diffKeysAreEncodings: the list helper recognises "the same element" by the element's equality
// encoding. Keying its presence index by a digest of that encoding makes two different elements
// the same element whenever the digests collide (a 32-bit digest collides among a few ten
// thousand values), and their difference is not reported.
func diffKeysAreEncodings(c *Ctx) {
	const R = "diff-keys-are-encodings"
	c.rule(R, "no function reachable from diffList inside pkg/sbom (the encoders excepted) calls into hash/* or crypto/*: elements are matched by their full equality encoding, never by a digest of it")
	ds := pkgFilter(c.reachDecls(R, "sbom.diffList", "sbom.(*Node).Diff"), "sbom.")
	n := 0
	for _, d := range ds {
		if strings.Contains(d.name, "flatString") || strings.HasSuffix(d.name, ".Checksum") {
			continue
		}
		n++
		bad := ""
		var pos token.Pos
		for _, cs := range callsIn(d.pkg, d.fd.Body) {
			if cs.callee.Pkg() == nil {
				continue
			}
			pp := cs.callee.Pkg().Path()
			if pp == "hash" || strings.HasPrefix(pp, "hash/") || strings.HasPrefix(pp, "crypto/") {
				bad, pos = cs.callee.FullName(), cs.call.Pos()
			}
		}
		c.check(bad == "", R, d.name, c.P.Pos(pos), "elements are matched by their encoding",
			fmt.Sprintf("%s matches elements through %s: a digest identifies an element only up to collisions, and two different suppliers or references with colliding digests are reported as no difference", d.name, bad))
	}
	if n == 0 {
		c.undecided(R, "sbom.diffList", "-", "no function in scope")
	}
}
