package main

// E2 — struct-field flow inside converter functions, on the syntax tree.
//
// For a converter f(src) → dst the relation dstField ← {srcField…} collects, for every
// initialisation of a field of the destination struct type (keyed literal element, later
// assignment, append into the field, store into a literal that is itself stored into the field),
// the source fields read in the value expression: directly (src.F, src.GetF()), through
// single-definition locals, through range variables over a source field, and through the tag of
// an enclosing switch (the purpose tables). It over-approximates reads and cannot invent a path;
// it decides the existence of a path, not equality of values.

import (
	"fmt"
	"go/ast"
	"go/token"
	"go/types"
	"sort"
	"strings"

	"golang.org/x/tools/go/packages"
	"golang.org/x/tools/go/types/typeutil"
)

type flowRel map[string]map[string]bool // dst field -> src fields

func (r flowRel) add(dst, src string) {
	if r[dst] == nil {
		r[dst] = map[string]bool{}
	}
	r[dst][src] = true
}

// localSources computes, for every local variable, the source fields it may carry: the union
// over all assignments to it (including appends and stores into its fields/elements) of the
// source fields read by the assigned expression, plus the source fields ranged over by enclosing
// loops, to a fixpoint.
func localSources(d *declInfo, src types.Object) map[types.Object]map[string]bool {
	S := map[types.Object]map[string]bool{}
	add := func(o types.Object, f string) bool {
		if S[o] == nil {
			S[o] = map[string]bool{}
		}
		if S[o][f] {
			return false
		}
		S[o][f] = true
		return true
	}
	type asg struct {
		lhs  types.Object
		rhs  []ast.Node
		node ast.Node
	}
	var asgs []asg
	ast.Inspect(d.fd.Body, func(n ast.Node) bool {
		switch s := n.(type) {
		case *ast.AssignStmt:
			for i, l := range s.Lhs {
				o := baseObj(d, l)
				if o == nil || o == src || !isLocal(d, o) {
					continue
				}
				var r []ast.Node
				if len(s.Lhs) == len(s.Rhs) {
					r = append(r, s.Rhs[i])
				} else {
					for _, x := range s.Rhs {
						r = append(r, x)
					}
				}
				// index/key expressions on the left carry data too (m[k] = v)
				if ix, ok := l.(*ast.IndexExpr); ok {
					r = append(r, ix.Index)
				}
				asgs = append(asgs, asg{o, r, s})
			}
		case *ast.ValueSpec:
			for i, nm := range s.Names {
				if o := d.pkg.TypesInfo.Defs[nm]; o != nil && i < len(s.Values) {
					asgs = append(asgs, asg{o, []ast.Node{s.Values[i]}, s})
				}
			}
		case *ast.RangeStmt:
			for _, e := range []ast.Expr{s.Key, s.Value} {
				if o := objOf(d.pkg, e); o != nil {
					asgs = append(asgs, asg{o, []ast.Node{s.X}, s})
				}
			}
		}
		return true
	})
	for changed, iter := true, 0; changed && iter < 10; iter++ {
		changed = false
		for _, a := range asgs {
			for _, r := range a.rhs {
				for f := range mentions(d.pkg, r, src) {
					if add(a.lhs, f) {
						changed = true
					}
				}
				ast.Inspect(r, func(n ast.Node) bool {
					if id, ok := n.(*ast.Ident); ok {
						if o := objOf(d.pkg, id); o != nil && o != a.lhs {
							for f := range S[o] {
								if add(a.lhs, f) {
									changed = true
								}
							}
						}
					}
					return true
				})
			}
			// enclosing loops over a source field (or over a local that carries source fields)
			for _, x := range enclosing(d.fd.Body, a.node) {
				if rs, ok := x.(*ast.RangeStmt); ok && ast.Node(rs) != a.node {
					for f := range mentions(d.pkg, rs.X, src) {
						if add(a.lhs, f) {
							changed = true
						}
					}
				}
			}
		}
	}
	return S
}

// srcFieldsOf: source fields an expression depends on.
func srcFieldsOf(d *declInfo, e ast.Node, src types.Object, locals map[types.Object]map[string]bool) map[string]bool {
	out := map[string]bool{}
	if e == nil {
		return out
	}
	for f := range mentions(d.pkg, e, src) {
		out[f] = true
	}
	ast.Inspect(e, func(n ast.Node) bool {
		if id, ok := n.(*ast.Ident); ok {
			for f := range locals[objOf(d.pkg, id)] {
				out[f] = true
			}
		}
		return true
	})
	return out
}

// converterFlow computes dst ← src for fields of structs named in dstOwners. With qualified the
// keys are "Owner.Field".
func converterFlow(d *declInfo, src types.Object, dstOwners map[string]bool) flowRel {
	return converterFlowQ(d, src, dstOwners, false)
}

func converterFlowQ(d *declInfo, src types.Object, dstOwners map[string]bool, qualified bool) flowRel {
	rel := flowRel{}
	locals := localSources(d, src)
	note := func(owner *types.Named, field string, val ast.Node, at ast.Node) {
		if owner == nil || !dstOwners[owner.Obj().Name()] {
			return
		}
		key := field
		if qualified {
			key = owner.Obj().Name() + "." + field
		}
		if _, ok := rel[key]; !ok {
			rel[key] = map[string]bool{}
		}
		for f := range srcFieldsOf(d, val, src, locals) {
			rel.add(key, f)
		}
		// enclosing switch tags, if conditions and range sources contribute control/data dependence
		chainAt := enclosing(d.fd.Body, at)
		// … and so do earlier guard clauses that leave the function with its result: what follows
		// them runs only when their condition fails
		for i, x := range chainAt {
			blk, isBlk := x.(*ast.BlockStmt)
			if !isBlk || i+1 >= len(chainAt) {
				continue
			}
			for _, st := range blk.List {
				if st == chainAt[i+1] || st.Pos() >= at.Pos() {
					break
				}
				ifs, isIf := st.(*ast.IfStmt)
				if !isIf || ifs.Else != nil || len(ifs.Body.List) == 0 {
					continue
				}
				rs, isRet := ifs.Body.List[len(ifs.Body.List)-1].(*ast.ReturnStmt)
				if !isRet || len(rs.Results) == 0 || isNilIdent(d.pkg, rs.Results[0]) {
					continue // error exits (nil result) end the conversion as a whole
				}
				for f := range srcFieldsOf(d, ifs.Cond, src, locals) {
					rel.add(key, f)
				}
			}
		}
		for _, x := range chainAt {
			switch s := x.(type) {
			case *ast.SwitchStmt:
				if s.Tag != nil {
					for f := range srcFieldsOf(d, s.Tag, src, locals) {
						rel.add(key, f)
					}
				}
			case *ast.IfStmt:
				for f := range srcFieldsOf(d, s.Cond, src, locals) {
					rel.add(key, f)
				}
			case *ast.CaseClause:
				// `switch { case n.Type == X: … }` — the case expressions are the condition
				for _, ce := range s.List {
					for f := range srcFieldsOf(d, ce, src, locals) {
						rel.add(key, f)
					}
				}
			case *ast.RangeStmt:
				for f := range srcFieldsOf(d, s.X, src, locals) {
					rel.add(key, f)
				}
			}
		}
	}
	for _, fi := range fieldInits(d.pkg, d.fd.Body) {
		note(fi.owner, fi.field.Name(), fi.value, nodeAt(d, fi))
	}
	// stores through a pointer field: *c.Hashes = append(*c.Hashes, …)
	ast.Inspect(d.fd.Body, func(n ast.Node) bool {
		as, ok := n.(*ast.AssignStmt)
		if !ok || len(as.Lhs) != len(as.Rhs) {
			return true
		}
		for i, l := range as.Lhs {
			st, ok := l.(*ast.StarExpr)
			if !ok {
				continue
			}
			sel, ok := st.X.(*ast.SelectorExpr)
			if !ok {
				continue
			}
			si := d.pkg.TypesInfo.Selections[sel]
			if si == nil || si.Kind() != types.FieldVal {
				continue
			}
			rt := si.Recv()
			if p, ok := rt.(*types.Pointer); ok {
				rt = p.Elem()
			}
			if nt, ok := rt.(*types.Named); ok {
				note(nt, sel.Sel.Name, as.Rhs[i], as)
			}
		}
		return true
	})
	if flowDepth <= 2 {
		flowDepth++
		for _, hc := range helperCallsPassing(d, src) {
			for k, v := range converterFlowQ(hc.d, hc.param, dstOwners, qualified) {
				for f := range v {
					rel.add(k, f)
				}
			}
		}
		flowDepth--
	}
	return rel
}

func relString(r flowRel, k string) string {
	var ss []string
	for f := range r[k] {
		ss = append(ss, f)
	}
	sort.Strings(ss)
	return "{" + strings.Join(ss, ",") + "}"
}

// roundTripPaths checks, for each attribute, ∃ native field g: writer g ← a ∧ reader a ← g.
func roundTripPaths(c *Ctx, rule, label string, attrs []string, wr, rd flowRel) {
	for _, a := range attrs {
		construct := label + "#" + a
		var via []string
		for g, srcs := range wr {
			if srcs[a] && rd[a][g] {
				via = append(via, g)
			}
		}
		sort.Strings(via)
		if len(via) > 0 {
			c.ok(rule, construct, "-", fmt.Sprintf("%s → %v → %s", a, via, a))
			continue
		}
		var written, read []string
		for g, srcs := range wr {
			if srcs[a] {
				written = append(written, g)
			}
		}
		for g := range rd[a] {
			read = append(read, g)
		}
		sort.Strings(written)
		sort.Strings(read)
		c.bad(rule, construct, "-", fmt.Sprintf("attribute %s has no round-trip path: the writer stores it into %v, the reader fills it from %v; no native field is on both sides, so the attribute is lost or lands in another attribute", a, written, read))
	}
}

// firstParamNamed returns the first parameter object whose type is (a pointer to) the named type.
func paramOfType(d *declInfo, typeName string) types.Object {
	for _, f := range d.fd.Type.Params.List {
		for _, n := range f.Names {
			o := d.pkg.TypesInfo.Defs[n]
			if o != nil && typeIs(o.Type(), "", typeName) {
				return o
			}
		}
	}
	return nil
}

// loopVarOfType finds the range value variable of the given element type (e.g. node over Nodes).
func loopVarOfType(d *declInfo, typeName string) types.Object {
	var out types.Object
	ast.Inspect(d.fd.Body, func(n ast.Node) bool {
		rs, ok := n.(*ast.RangeStmt)
		if !ok || out != nil {
			return true
		}
		if o := objOf(d.pkg, rs.Value); o != nil && typeIs(o.Type(), "", typeName) {
			out = o
		}
		// index loop with the element bound to a local: for i := range xs { x := &xs[i] … }
		if out == nil && rs.Key != nil {
			ko := objOf(d.pkg, rs.Key)
			for _, st := range rs.Body.List {
				as, isAs := st.(*ast.AssignStmt)
				if !isAs || as.Tok != token.DEFINE || len(as.Lhs) != 1 || len(as.Rhs) != 1 {
					continue
				}
				rhs := as.Rhs[0]
				if u, isU := rhs.(*ast.UnaryExpr); isU && u.Op == token.AND {
					rhs = u.X
				}
				ix, isIx := rhs.(*ast.IndexExpr)
				if !isIx || ko == nil || objOf(d.pkg, ix.Index) != ko {
					continue
				}
				if o := objOf(d.pkg, as.Lhs[0]); o != nil {
					t := o.Type()
					if pt, isP := t.(*types.Pointer); isP {
						t = pt.Elem()
					}
					if typeIs(t, "", typeName) {
						out = o
					}
				}
			}
		}
		return true
	})
	return out
}

// ---- C01 flow rules ----

var spdxPackageAttrs = []string{"Id", "Name", "Version", "UrlHome", "UrlDownload", "LicenseConcluded", "LicenseComments", "Copyright", "Hashes",
	"Identifiers", "ExternalReferences", "PrimaryPurpose", "ReleaseDate", "BuildDate", "ValidUntilDate", "Suppliers", "Originators"}
var spdxFileAttrs = []string{"Id", "Name", "LicenseConcluded", "LicenseComments", "Copyright", "Hashes"}

func spdxFlow(c *Ctx, prop string) {
	const R = "round-trip-path"
	c.rule(R, "for every attribute the statement lists there is an SPDX field g such that the writer stores the attribute into g and the reader fills the attribute from g (field flow through literals, assignments, single-definition locals, range variables and switch tags)")
	bp := c.decl(R, "serializers.(*SPDX23).buildPackages")
	bf := c.decl(R, "serializers.buildFiles")
	pn := c.decl(R, "unserializers.(*SPDX23).packageToNode")
	fn := c.decl(R, "unserializers.(*SPDX23).fileToNode")
	if bp == nil || bf == nil || pn == nil || fn == nil {
		return
	}
	pkgOwners := map[string]bool{"Package": true, "Supplier": true, "Originator": true, "PackageExternalReference": true, "Checksum": true}
	nodeOwners := map[string]bool{"Node": true, "Person": true, "ExternalReference": true}
	if node := loopVarOfType(bp, "Node"); node != nil {
		if p := paramOfType(pn, "Package"); p != nil {
			wr := flattenSub(converterFlow(bp, node, pkgOwners), map[string]string{"Supplier": "PackageSupplier", "SupplierType": "PackageSupplier", "Originator": "PackageOriginator", "OriginatorType": "PackageOriginator",
				"Category": "PackageExternalReferences", "RefType": "PackageExternalReferences", "Locator": "PackageExternalReferences", "ExternalRefComment": "PackageExternalReferences",
				"Algorithm": "PackageChecksums", "Value": "PackageChecksums"})
			rd := readerFlow(pn, p, nodeOwners, map[string]string{"Url": "ExternalReferences", "Type": "ExternalReferences", "Comment": "ExternalReferences", "IsOrg": "", "Email": ""})
			c.info("SPDX package writer flow: %d native fields; reader flow: %d node fields", len(wr), len(rd))
			roundTripPaths(c, R, "spdx-package", spdxPackageAttrs, wr, rd)
			// Name and ExternalReferences are left out: the relation merges Person.Name into Name and
			// reads ExternalReferences through the node under construction, which depends on everything
			attributeIndependence(c, "spdx-package", spdxPackageAttrs, wr, rd, map[string]bool{"Id": true, "Name": true, "ExternalReferences": true})
		} else {
			c.undecided(R, "spdx-package#anchor", "-", "packageToNode parameter not found")
		}
	} else {
		c.undecided(R, "spdx-package#anchor", "-", "node loop of buildPackages not found")
	}
	if node := loopVarOfType(bf, "Node"); node != nil {
		if p := paramOfType(fn, "File"); p != nil {
			wr := flattenSub(converterFlow(bf, node, map[string]bool{"File": true, "Checksum": true}), map[string]string{"Algorithm": "Checksums", "Value": "Checksums"})
			rd := readerFlow(fn, p, nodeOwners, nil)
			roundTripPaths(c, R, "spdx-file", spdxFileAttrs, wr, rd)
		}
	}
	c.floor(R, 23, "17 package attributes and 6 file attributes")
	dateFormats(c)
	verbatimSPDX(c)
}

// flattenSub merges fields of nested destination structs into the field of the top-level struct
// that holds them.
func flattenSub(r flowRel, parent map[string]string) flowRel {
	out := flowRel{}
	for k, v := range r {
		key := k
		if p, ok := parent[k]; ok && p != "" {
			key = p
		}
		for f := range v {
			out.add(key, f)
		}
		if _, ok := out[key]; !ok {
			out[key] = map[string]bool{}
		}
	}
	return out
}

// readerFlow: node field ← native fields; sub-struct fields of Node (Person, ExternalReference)
// are attributed to the Node field that holds them via the statement that stores them.
func readerFlow(d *declInfo, src types.Object, owners map[string]bool, sub map[string]string) flowRel {
	raw := converterFlow(d, src, owners)
	out := flowRel{}
	for k, v := range raw {
		key := k
		if p, ok := sub[k]; ok {
			key = p
		}
		if key == "" {
			continue
		}
		for f := range v {
			out.add(key, f)
		}
	}
	// map stores: n.Hashes[k] = v / n.Identifiers[k] = v inside loops over native fields
	locals := localSources(d, src)
	ast.Inspect(d.fd.Body, func(n ast.Node) bool {
		as, ok := n.(*ast.AssignStmt)
		if !ok {
			return true
		}
		for i, l := range as.Lhs {
			ix, ok := l.(*ast.IndexExpr)
			if !ok {
				continue
			}
			sel, ok := ix.X.(*ast.SelectorExpr)
			if !ok {
				continue
			}
			if i < len(as.Rhs) {
				for f := range srcFieldsOf(d, as.Rhs[i], src, locals) {
					out.add(sel.Sel.Name, f)
				}
			}
			for _, x := range enclosing(d.fd.Body, as) {
				switch y := x.(type) {
				case *ast.RangeStmt:
					for f := range srcFieldsOf(d, y.X, src, locals) {
						out.add(sel.Sel.Name, f)
					}
				case *ast.IfStmt:
					// `if _, ok := dst.F[k]; !ok { dst.F[k] = v }`: a test of the destination's own
					// field decides nothing about other attributes
					if init, isAs := y.Init.(*ast.AssignStmt); isAs && len(init.Rhs) == 1 {
						if lix, isIx := ast.Unparen(init.Rhs[0]).(*ast.IndexExpr); isIx {
							if lsel, isSel := lix.X.(*ast.SelectorExpr); isSel && lsel.Sel.Name == sel.Sel.Name && objOf(d.pkg, lsel.X) != nil && objOf(d.pkg, lsel.X) == objOf(d.pkg, sel.X) {
								continue
							}
						}
					}
					for f := range srcFieldsOf(d, y.Cond, src, locals) {
						out.add(sel.Sel.Name, f)
					}
				}
			}
		}
		// n.ExternalReferences = append(n.ExternalReferences, &ExternalReference{…}) inside range
		for i, l := range as.Lhs {
			sel, ok := l.(*ast.SelectorExpr)
			if !ok || i >= len(as.Rhs) {
				continue
			}
			if ce, ok := as.Rhs[i].(*ast.CallExpr); ok {
				if id, ok := ce.Fun.(*ast.Ident); ok && id.Name == "append" {
					for f := range srcFieldsOf(d, ce, src, locals) {
						out.add(sel.Sel.Name, f)
					}
					for _, x := range enclosing(d.fd.Body, as) {
						if rs, ok := x.(*ast.RangeStmt); ok {
							for f := range srcFieldsOf(d, rs.X, src, locals) {
								out.add(sel.Sel.Name, f)
							}
						}
					}
				}
			}
		}
		return true
	})
	// helpers that receive the whole source value (and fill the destination they are given):
	// their flow is part of this function's flow
	for _, hc := range helperCallsPassing(d, src) {
		for k, v := range readerFlowDepth(hc.d, hc.param, owners, sub) {
			for f := range v {
				out.add(k, f)
			}
		}
	}
	// helpers that receive one field of the source together with the destination
	// (u.readExternalReferences(n, p.PackageExternalReferences)): what they store into the
	// destination's fields comes from that field
	if theProgram != nil && src != nil {
		for _, cs := range callsIn(d.pkg, d.fd.Body) {
			if cs.callee.Pkg() == nil || !strings.HasPrefix(cs.callee.Pkg().Path(), modPath+"/") || cs.callee == d.obj {
				continue
			}
			sig, _ := cs.callee.Type().(*types.Signature)
			if sig == nil || sig.Results().Len() != 0 {
				continue // value-returning helpers are followed where their result is stored
			}
			fd, pk := theProgram.FuncDecl(objName(cs.callee))
			if fd == nil || fd.Body == nil {
				continue
			}
			var params []types.Object
			for _, fl := range fd.Type.Params.List {
				for _, nm := range fl.Names {
					params = append(params, pk.TypesInfo.Defs[nm])
				}
			}
			for i, a := range cs.call.Args {
				fields := srcFieldsOf(d, a, src, locals)
				if len(fields) == 0 || i >= len(params) || params[i] == nil {
					continue
				}
				if id, isId := a.(*ast.Ident); isId && objOf(d.pkg, id) == src {
					continue // the whole source: handled above
				}
				// does the helper use this parameter at all?
				used := false
				ast.Inspect(fd.Body, func(n ast.Node) bool {
					if id, ok := n.(*ast.Ident); ok && pk.TypesInfo.Uses[id] == params[i] {
						used = true
					}
					return true
				})
				if !used {
					continue
				}
				// destination fields the helper stores to (through a parameter of an owner type)
				ast.Inspect(fd.Body, func(n ast.Node) bool {
					as, ok := n.(*ast.AssignStmt)
					if !ok {
						return true
					}
					for _, l := range as.Lhs {
						if ix, isIx := l.(*ast.IndexExpr); isIx {
							l = ix.X
						}
						sel, isSel := l.(*ast.SelectorExpr)
						if !isSel {
							continue
						}
						bo := objOf(pk, sel.X)
						isParam := false
						for _, po := range params {
							if po == bo && bo != nil {
								isParam = true
							}
						}
						if !isParam {
							continue
						}
						t := bo.Type()
						if pt, isP := t.(*types.Pointer); isP {
							t = pt.Elem()
						}
						if nt, isNamed := t.(*types.Named); isNamed && owners[nt.Obj().Name()] {
							key := sel.Sel.Name
							if p2, ok := sub[key]; ok {
								key = p2
							}
							if key == "" {
								continue
							}
							for f := range fields {
								out.add(key, f)
							}
						}
					}
					return true
				})
			}
		}
	}
	return out
}

type helperCall struct {
	d     *declInfo
	param types.Object
}

var flowDepth int

func readerFlowDepth(d *declInfo, src types.Object, owners map[string]bool, sub map[string]string) flowRel {
	if flowDepth > 2 {
		return flowRel{}
	}
	flowDepth++
	defer func() { flowDepth-- }()
	return readerFlow(d, src, owners, sub)
}

// helperCallsPassing lists the module functions d calls with the bare variable src as an argument,
// with the parameter that receives it.
func helperCallsPassing(d *declInfo, src types.Object) []helperCall {
	var out []helperCall
	if theProgram == nil || src == nil {
		return nil
	}
	for _, cs := range callsIn(d.pkg, d.fd.Body) {
		if cs.callee.Pkg() == nil || !strings.HasPrefix(cs.callee.Pkg().Path(), modPath+"/") || cs.callee == d.obj {
			continue
		}
		for i, a := range cs.call.Args {
			id, ok := a.(*ast.Ident)
			if !ok || objOf(d.pkg, id) != src {
				continue
			}
			fd, pk := theProgram.FuncDecl(objName(cs.callee))
			if fd == nil || fd.Body == nil || fd.Type.Params == nil {
				continue
			}
			k := 0
			for _, fl := range fd.Type.Params.List {
				for _, nm := range fl.Names {
					if k == i {
						obj, _ := pk.TypesInfo.Defs[fd.Name].(*types.Func)
						out = append(out, helperCall{&declInfo{fd: fd, pkg: pk, obj: obj, name: objName(cs.callee)}, pk.TypesInfo.Defs[nm]})
					}
					k++
				}
			}
		}
	}
	return out
}

// dateFormats: C01-D4.
func dateFormats(c *Ctx) {
	const R = "date-format-agreement"
	c.rule(R, "each date attribute is written by (time.Time).Format(L) with a constant layout L on the timestamp's AsTime() value and read by time.Parse(L', ·) with (L, L') in the accepted table: RFC3339 / RFC3339Nano / 2006-01-02T15:04:05Z written, RFC3339 or RFC3339Nano read")
	wr := c.decl(R, "serializers.(*SPDX23).buildPackages")
	rd := c.reachDecls(R, "unserializers.(*SPDX23).packageToNode")
	if wr == nil || len(rd) == 0 {
		return
	}
	// reader layouts
	var readLayouts []string
	for _, d := range rd {
		for _, cs := range callsIn(d.pkg, d.fd.Body) {
			if cs.callee.FullName() == "time.Parse" && len(cs.call.Args) == 2 {
				if v, ok := constOf(d.pkg, cs.call.Args[0]); ok && v.isStr() {
					readLayouts = append(readLayouts, v.str())
				}
			}
		}
	}
	accepted := func(w string) bool {
		writeOK := map[string]bool{"2006-01-02T15:04:05Z07:00": true, "2006-01-02T15:04:05.999999999Z07:00": true, "2006-01-02T15:04:05Z": true}
		if !writeOK[w] {
			return false
		}
		for _, r := range readLayouts {
			switch r {
			case "2006-01-02T15:04:05.999999999Z07:00":
				return true
			case "2006-01-02T15:04:05Z07:00":
				if w != "2006-01-02T15:04:05.999999999Z07:00" {
					return true
				}
			}
		}
		return false
	}
	for _, pair := range [][2]string{{"ReleaseDate", "ReleaseDate"}, {"BuiltDate", "BuildDate"}, {"ValidUntilDate", "ValidUntilDate"}} {
		construct := "spdx-package#" + pair[1]
		found := false
		for _, fi := range fieldInits(wr.pkg, wr.fd.Body) {
			if fi.field.Name() != pair[0] || fi.owner == nil || fi.owner.Obj().Name() != "Package" {
				continue
			}
			found = true
			layout, viaFormat := "", false
			presenceByValue := ""
			adjusted := "" // a method between AsTime() and Format that changes the instant
			findFormat := func(pk *packages.Package, node ast.Node) {
				ast.Inspect(node, func(n ast.Node) bool {
					ce, ok := n.(*ast.CallExpr)
					if !ok {
						return true
					}
					if f, _ := typeutil.Callee(pk.TypesInfo, ce).(*types.Func); f != nil && f.FullName() == "(time.Time).Format" && len(ce.Args) == 1 {
						viaFormat = true
						if v, ok := constOf(pk, ce.Args[0]); ok && v.isStr() {
							layout = v.str()
						}
						// the value formatted is the timestamp's instant: only zone changes and
						// truncation to the second (which the layout performs anyway) lie between
						recv := ast.Expr(nil)
						if sel, isSel := ce.Fun.(*ast.SelectorExpr); isSel {
							recv = sel.X
						}
						for i := 0; recv != nil && i < 8; i++ {
							inner, isCall := ast.Unparen(recv).(*ast.CallExpr)
							if !isCall {
								break
							}
							g, _ := typeutil.Callee(pk.TypesInfo, inner).(*types.Func)
							isel, isSel := inner.Fun.(*ast.SelectorExpr)
							if g == nil || !isSel {
								break
							}
							switch g.FullName() {
							case "(time.Time).UTC", "(time.Time).In", "(time.Time).Local":
							case "(time.Time).Truncate":
								if v, okc := constOf(pk, inner.Args[0]); !okc || !v.isInt() || v.int() > 1000000000 || v.int() <= 0 {
									adjusted = types.ExprString(inner.Fun) + "(" + types.ExprString(inner.Args[0]) + ")"
								}
							default:
								if strings.HasPrefix(g.FullName(), "(time.Time).") {
									adjusted = "." + isel.Sel.Name + "(…)"
								}
							}
							if !strings.HasPrefix(g.FullName(), "(time.Time).") {
								break
							}
							recv = isel.X
						}
					}
					return true
				})
			}
			findFormat(wr.pkg, fi.value)
			// one level of helper: p.X = spdxDate(node.X)
			if !viaFormat {
				if ce, ok := fi.value.(*ast.CallExpr); ok {
					if f, _ := typeutil.Callee(wr.pkg.TypesInfo, ce).(*types.Func); f != nil && f.Pkg() != nil && strings.HasPrefix(f.Pkg().Path(), modPath+"/") {
						if hfd, hpk := c.P.FuncDecl(objName(f)); hfd != nil {
							findFormat(hpk, hfd.Body)
							// the helper may return "no date" only for a nil timestamp
							ast.Inspect(hfd.Body, func(n ast.Node) bool {
								ifs, ok := n.(*ast.IfStmt)
								if !ok || !terminates(ifs.Body) {
									return true
								}
								onlyNil := true
								var walk func(e ast.Expr)
								walk = func(e ast.Expr) {
									switch b := e.(type) {
									case *ast.ParenExpr:
										walk(b.X)
										return
									case *ast.BinaryExpr:
										if b.Op == token.LOR || b.Op == token.LAND {
											walk(b.X)
											walk(b.Y)
											return
										}
										if (b.Op == token.EQL || b.Op == token.NEQ) && (isNilIdent(hpk, b.Y) || isNilIdent(hpk, b.X)) {
											return
										}
									}
									onlyNil = false
								}
								walk(ifs.Cond)
								if !onlyNil {
									presenceByValue = types.ExprString(ifs.Cond)
								}
								return true
							})
						}
					}
				}
			}
			// the guard around an inline assignment must be a nil test of the timestamp
			for _, x := range enclosing(wr.fd.Body, nodeAt(wr, fi)) {
				if ifs, ok := x.(*ast.IfStmt); ok {
					txt := types.ExprString(ifs.Cond)
					if strings.Contains(txt, pair[1]) && !strings.Contains(txt, "nil") {
						presenceByValue = txt
					}
				}
			}
			if presenceByValue != "" && viaFormat {
				c.bad(R, construct, c.P.Pos(fi.pos), fmt.Sprintf("whether %s is written is decided by the value test `%s` instead of a nil test of the timestamp: a date that is set to that value (for example the Unix epoch, as SOURCE_DATE_EPOCH=0 builds produce) is written as absent and lost", pair[0], presenceByValue))
				continue
			}
			switch {
			case viaFormat && adjusted != "":
				c.bad(R, construct, c.P.Pos(fi.pos), fmt.Sprintf("%s is not the timestamp's own instant: %s is applied before formatting, so some dates are written as a different second than the one stored (rounding moves .5 s and above to the next second) and do not read back \"to the second\"", pair[0], adjusted))
			case !viaFormat:
				c.bad(R, construct, c.P.Pos(fi.pos), fmt.Sprintf("%s is written as %s, not through (time.Time).Format with a constant layout: the reader's time.Parse(%v) cannot read it back, so the date is lost", pair[0], types.ExprString(fi.value), readLayouts))
			case !accepted(layout):
				c.bad(R, construct, c.P.Pos(fi.pos), fmt.Sprintf("%s is written with layout %q, which the reader's layouts %v do not parse", pair[0], layout, readLayouts))
			default:
				c.ok(R, construct, c.P.Pos(fi.pos), fmt.Sprintf("written with %q, read with %v", layout, readLayouts))
			}
		}
		if !found {
			c.bad(R, construct, c.P.Pos(wr.fd.Pos()), pair[0]+" is never written")
		}
	}
	_ = token.NoPos
}

// verbatimSPDX: C01-D5.
func verbatimSPDX(c *Ctx) {
	const R = "verbatim-identifiers"
	c.rule(R, "SPDX element identifiers and relationship endpoints are transferred by type conversion only (writer: ElementID(node.Id), MakeDocElementID(\"\", id); reader: string(…SPDXIdentifier), string(…ElementRefID)) — no formatting, trimming or mapping call in between")
	type site struct{ fn, owner, field, wantSuffix string }
	sites := []site{
		{"serializers.(*SPDX23).buildPackages", "Package", "PackageSPDXIdentifier", ".Id"},
		{"serializers.buildFiles", "File", "FileSPDXIdentifier", ".Id"},
		{"serializers.buildRelationships", "Relationship", "RefA", ".From"},
		{"serializers.buildRelationships", "Relationship", "RefB", ""},
		{"unserializers.(*SPDX23).packageToNode", "Node", "Id", "PackageSPDXIdentifier"},
		{"unserializers.(*SPDX23).fileToNode", "Node", "Id", "FileSPDXIdentifier"},
		{"unserializers.(*SPDX23).relationshipToEdge", "Edge", "From", "RefA.ElementRefID"},
		{"unserializers.(*SPDX23).relationshipToEdge", "Edge", "To", "RefB.ElementRefID"},
	}
	for _, s := range sites {
		d := c.decl(R, s.fn)
		if d == nil {
			continue
		}
		construct := s.fn + "#" + s.owner + "." + s.field
		found := false
		for _, fi := range fieldInits(d.pkg, d.fd.Body) {
			if fi.owner == nil || fi.owner.Obj().Name() != s.owner || fi.field.Name() != s.field {
				continue
			}
			found = true
			// strip conversions, one-element literals and MakeDocElementID("", x)
			e := fi.value
			for i := 0; i < 6; i++ {
				switch x := e.(type) {
				case *ast.ParenExpr:
					e = x.X
					continue
				case *ast.CompositeLit:
					if len(x.Elts) == 1 {
						e = x.Elts[0]
						continue
					}
				case *ast.CallExpr:
					if tv, ok := d.pkg.TypesInfo.Types[x.Fun]; ok && tv.IsType() && len(x.Args) == 1 {
						e = x.Args[0]
						continue
					}
					if sel, ok := x.Fun.(*ast.SelectorExpr); ok && len(x.Args) == 0 && strings.HasPrefix(sel.Sel.Name, "Get") {
						if f, _ := typeutil.Callee(d.pkg.TypesInfo, x).(*types.Func); f != nil && f.Pkg() != nil && inPkgs(f.Pkg().Path(), getterPkgs) {
							// generated nil-safe getter: same value as the field
							e = &ast.SelectorExpr{X: sel.X, Sel: ast.NewIdent(strings.TrimPrefix(sel.Sel.Name, "Get"))}
							continue
						}
					}
					if f, _ := typeutil.Callee(d.pkg.TypesInfo, x).(*types.Func); f != nil && f.Name() == "MakeDocElementID" && len(x.Args) == 2 {
						if v, ok := constOf(d.pkg, x.Args[0]); ok && v.isStr() && v.str() == "" {
							e = x.Args[1]
							continue
						}
					}
				}
				break
			}
			txt := types.ExprString(e)
			_, isCall := e.(*ast.CallExpr)
			okv := !isCall && (s.wantSuffix == "" || strings.HasSuffix(txt, s.wantSuffix))
			c.check(okv, R, construct, c.P.Pos(fi.pos), s.field+" ← "+txt,
				fmt.Sprintf("%s.%s is built from %s: identifiers must be transferred verbatim (type conversion only) from %s", s.owner, s.field, types.ExprString(fi.value), s.wantSuffix))
		}
		if !found {
			c.undecided(R, construct, c.P.Pos(d.fd.Pos()), "initialisation of "+s.owner+"."+s.field+" not found")
		}
	}
}
