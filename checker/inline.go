package main

// AST pre-pass: named set types.
//
// A map used as a set is often wrapped in a small named type with accessor methods:
//
//	type idSet map[string]struct{}
//	func (s idSet) has(id string) bool { _, ok := s[id]; return ok }
//	func (s idSet) add(id string)      { s[id] = struct{}{} }
//
// Every recogniser that reads membership tests and insertions (loop classes, membership facts,
// placed sets, visited sets, de-duplication) is written against the map operations themselves. After
// the SSA form has been built (it keeps the program as written) the calls of such accessors in the
// syntax trees of the module are replaced by the map operation their body performs, so that
// `s.has(k)` reads as the lookup `s[k]` and `s.add(k)` as the store `s[k] = struct{}{}`. Only
// accessors whose whole body is that one operation are inlined; anything else stays a call.

import (
	"go/ast"
	"go/token"
	"go/types"
	"strings"

	"golang.org/x/tools/go/ast/astutil"
	"golang.org/x/tools/go/packages"
	"golang.org/x/tools/go/types/typeutil"
)

// setHasExprs: synthesized lookups `s[k]` that stand for "k is a member of s" whatever the map's
// value type is.
var setHasExprs = map[*ast.IndexExpr]bool{}

type accessorKind int

const (
	accNone    accessorKind = iota
	accHas                  // func (s T) has(k K) bool            — membership
	accAdd                  // func (s T) add(k K)                 — insertion
	accAddBool              // func (s T) add(k K) bool (true = new) — test and insertion
)

// classifyAccessor inspects a method of a named map type.
func classifyAccessor(pk *packages.Package, fd *ast.FuncDecl, known map[*types.Func]accessorKind) accessorKind {
	if fd.Recv == nil || len(fd.Recv.List) != 1 || len(fd.Recv.List[0].Names) != 1 || fd.Body == nil {
		return accNone
	}
	recv := pk.TypesInfo.Defs[fd.Recv.List[0].Names[0]]
	if recv == nil {
		return accNone
	}
	if _, isMap := recv.Type().Underlying().(*types.Map); !isMap {
		return accNone
	}
	if fd.Type.Params == nil || len(fd.Type.Params.List) != 1 || len(fd.Type.Params.List[0].Names) != 1 {
		return accNone
	}
	par := pk.TypesInfo.Defs[fd.Type.Params.List[0].Names[0]]
	isLookup := func(e ast.Expr) bool {
		ix, ok := e.(*ast.IndexExpr)
		return ok && objOfInfo(pk, ix.X) == recv && objOfInfo(pk, ix.Index) == par
	}
	isStore := func(s ast.Stmt) bool {
		as, ok := s.(*ast.AssignStmt)
		return ok && as.Tok == token.ASSIGN && len(as.Lhs) == 1 && len(as.Rhs) == 1 && isLookup(as.Lhs[0])
	}
	isConstBool := func(e ast.Expr, want bool) bool {
		id, ok := e.(*ast.Ident)
		if !ok {
			return false
		}
		if want {
			return id.Name == "true"
		}
		return id.Name == "false"
	}
	nres := 0
	if fd.Type.Results != nil {
		for _, f := range fd.Type.Results.List {
			if len(f.Names) == 0 {
				nres++
			} else {
				nres += len(f.Names)
			}
		}
	}
	body := fd.Body.List
	switch {
	case nres == 0 && len(body) == 1 && isStore(body[0]):
		return accAdd
	case nres == 1 && len(body) == 1:
		// return s[k]  (map[K]bool)
		if rs, ok := body[0].(*ast.ReturnStmt); ok && len(rs.Results) == 1 && isLookup(rs.Results[0]) {
			return accHas
		}
	case nres == 1 && len(body) == 2:
		// _, ok := s[k]; return ok
		as, ok := body[0].(*ast.AssignStmt)
		rs, ok2 := body[1].(*ast.ReturnStmt)
		if ok && ok2 && as.Tok == token.DEFINE && len(as.Lhs) == 2 && len(as.Rhs) == 1 && isLookup(as.Rhs[0]) && len(rs.Results) == 1 {
			if objOfInfo(pk, rs.Results[0]) == pk.TypesInfo.Defs[identOf(as.Lhs[1])] && objOfInfo(pk, rs.Results[0]) != nil {
				return accHas
			}
		}
	case nres == 1 && len(body) == 3:
		// if _, ok := s[k]; ok { return false }; s[k] = …; return true
		ifs, ok := body[0].(*ast.IfStmt)
		rs, ok2 := body[2].(*ast.ReturnStmt)
		if ok && ok2 && isStore(body[1]) && len(rs.Results) == 1 && isConstBool(rs.Results[0], true) && ifs.Else == nil && len(ifs.Body.List) == 1 {
			// if s.has(k) { return false } — through the sibling accessor
			if ce, isCall := ifs.Cond.(*ast.CallExpr); isCall && ifs.Init == nil && len(ce.Args) == 1 && objOfInfo(pk, ce.Args[0]) == par {
				if sel, isSel := ce.Fun.(*ast.SelectorExpr); isSel && objOfInfo(pk, sel.X) == recv {
					if f, _ := typeutil.Callee(pk.TypesInfo, ce).(*types.Func); f != nil && known[f] == accHas {
						if r0, isRet := ifs.Body.List[0].(*ast.ReturnStmt); isRet && len(r0.Results) == 1 && isConstBool(r0.Results[0], false) {
							return accAddBool
						}
					}
				}
			}
			if as, isAs := ifs.Init.(*ast.AssignStmt); isAs && len(as.Lhs) == 2 && len(as.Rhs) == 1 && isLookup(as.Rhs[0]) {
				if r0, isRet := ifs.Body.List[0].(*ast.ReturnStmt); isRet && len(r0.Results) == 1 && isConstBool(r0.Results[0], false) {
					if objOfInfo(pk, ifs.Cond) == pk.TypesInfo.Defs[identOf(as.Lhs[1])] && objOfInfo(pk, ifs.Cond) != nil {
						return accAddBool
					}
				}
			}
		}
	}
	return accNone
}

func identOf(e ast.Expr) *ast.Ident {
	id, _ := e.(*ast.Ident)
	return id
}

func objOfInfo(pk *packages.Package, e ast.Expr) types.Object {
	id, ok := e.(*ast.Ident)
	if !ok {
		return nil
	}
	if o := pk.TypesInfo.Uses[id]; o != nil {
		return o
	}
	return pk.TypesInfo.Defs[id]
}

// inlineSetAccessors rewrites the module's syntax trees (see the file comment). It returns the
// number of call sites rewritten.
func inlineSetAccessors(p *Program) int {
	kinds := map[*types.Func]accessorKind{}
	for _, pk := range p.Pkgs {
		if !strings.HasPrefix(pk.PkgPath, modPath+"/") {
			continue
		}
		for _, f := range pk.Syntax {
			for _, dd := range f.Decls {
				fd, ok := dd.(*ast.FuncDecl)
				if !ok {
					continue
				}
				if k := classifyAccessor(pk, fd, kinds); k != accNone {
					if obj, _ := pk.TypesInfo.Defs[fd.Name].(*types.Func); obj != nil {
						kinds[obj] = k
					}
				}
			}
		}
	}
	// a second pass: accessors written in terms of a sibling (add through has)
	for _, pk := range p.Pkgs {
		if !strings.HasPrefix(pk.PkgPath, modPath+"/") {
			continue
		}
		for _, f := range pk.Syntax {
			for _, dd := range f.Decls {
				fd, ok := dd.(*ast.FuncDecl)
				if !ok {
					continue
				}
				obj, _ := pk.TypesInfo.Defs[fd.Name].(*types.Func)
				if obj == nil || kinds[obj] != accNone {
					continue
				}
				if k := classifyAccessor(pk, fd, kinds); k != accNone {
					kinds[obj] = k
				}
			}
		}
	}
	if len(kinds) == 0 {
		return 0
	}
	n := 0
	for _, pk := range p.Pkgs {
		if !strings.HasPrefix(pk.PkgPath, modPath+"/") {
			continue
		}
		info := pk.TypesInfo
		boolT := types.Typ[types.Bool]
		mkLookup := func(ce *ast.CallExpr) *ast.IndexExpr {
			sel := ce.Fun.(*ast.SelectorExpr)
			ix := &ast.IndexExpr{X: sel.X, Lbrack: ce.Lparen, Index: ce.Args[0], Rbrack: ce.Rparen}
			return ix
		}
		accessorOf := func(e ast.Expr) (*ast.CallExpr, accessorKind) {
			ce, ok := e.(*ast.CallExpr)
			if !ok || len(ce.Args) != 1 {
				return nil, accNone
			}
			if _, isSel := ce.Fun.(*ast.SelectorExpr); !isSel {
				return nil, accNone
			}
			f, _ := typeutil.Callee(info, ce).(*types.Func)
			if f == nil {
				return nil, accNone
			}
			if o := f.Origin(); o != nil {
				f = o
			}
			return ce, kinds[f]
		}
		emptyStruct := func(pos token.Pos) ast.Expr {
			cl := &ast.CompositeLit{Type: &ast.StructType{Struct: pos, Fields: &ast.FieldList{}}, Lbrace: pos, Rbrace: pos}
			info.Types[cl] = types.TypeAndValue{Type: types.NewStruct(nil, nil)}
			return cl
		}
		mkStore := func(ce *ast.CallExpr) *ast.AssignStmt {
			ix := mkLookup(ce)
			if mt, ok := info.TypeOf(ix.X).Underlying().(*types.Map); ok {
				info.Types[ix] = types.TypeAndValue{Type: mt.Elem()}
			}
			var rhs ast.Expr = emptyStruct(ce.Pos())
			if mt, ok := info.TypeOf(ix.X).Underlying().(*types.Map); ok {
				if b, isB := mt.Elem().Underlying().(*types.Basic); isB && b.Kind() == types.Bool {
					id := &ast.Ident{NamePos: ce.Pos(), Name: "true"}
					info.Uses[id] = types.Universe.Lookup("true")
					info.Types[id] = types.TypeAndValue{Type: boolT}
					rhs = id
				}
			}
			return &ast.AssignStmt{Lhs: []ast.Expr{ix}, TokPos: ce.Pos(), Tok: token.ASSIGN, Rhs: []ast.Expr{rhs}}
		}
		for _, file := range pk.Syntax {
			astutil.Apply(file, func(cur *astutil.Cursor) bool {
				switch x := cur.Node().(type) {
				case *ast.FuncDecl:
					// the accessors themselves stay as written
					if obj, _ := info.Defs[x.Name].(*types.Func); obj != nil && kinds[obj] != accNone {
						return false
					}
				case *ast.ExprStmt:
					if ce, k := accessorOf(x.X); k == accAdd || k == accAddBool {
						cur.Replace(mkStore(ce))
						n++
						return false
					}
				case *ast.IfStmt:
					// if s.add(k) { BODY }  →  if !has(s, k) { s[k] = …; BODY }
					if ce, k := accessorOf(x.Cond); k == accAddBool && x.Init == nil {
						ix := mkLookup(ce)
						setHasExprs[ix] = true
						info.Types[ix] = types.TypeAndValue{Type: boolT}
						not := &ast.UnaryExpr{OpPos: ce.Pos(), Op: token.NOT, X: ix}
						info.Types[not] = types.TypeAndValue{Type: boolT}
						x.Cond = not
						x.Body.List = append([]ast.Stmt{mkStore(ce)}, x.Body.List...)
						n++
					}
				}
				return true
			}, func(cur *astutil.Cursor) bool {
				// expressions: s.has(k) → membership lookup
				if ce, k := accessorOf(exprOf(cur.Node())); k == accHas {
					ix := mkLookup(ce)
					setHasExprs[ix] = true
					info.Types[ix] = types.TypeAndValue{Type: boolT}
					cur.Replace(ix)
					n++
				}
				return true
			})
		}
	}
	return n
}

func exprOf(n ast.Node) ast.Expr {
	e, _ := n.(ast.Expr)
	return e
}
