package main

// pool-value-released-last — a value handed back with (*sync.Pool).Put may be handed to another
// goroutine at once. Using it afterwards — or a slice/pointer obtained from it, such as
// buf.Bytes() — lets two concurrent calls write and read the same memory: one writer's output can
// carry another writer's document. Also: lazy initialisation guarded by a bare atomic flag
// (check-then-init) lets a concurrent caller run ahead of the initialisation.

import (
	"fmt"
	"go/ast"
	"go/token"
	"go/types"
	"strings"

	"golang.org/x/tools/go/types/typeutil"
)

func poolDisciplineRule(c *Ctx) {
	const R = "pool-value-released-last"
	c.rule(R, "after a non-deferred sync.Pool.Put(v), neither v nor a reference obtained from it (a local assigned from a method call or slice of v with a reference type) is used on a path that continues from the Put")
	n := 0
	var paths []string
	for path := range c.P.Pkgs {
		paths = append(paths, path)
	}
	sortStrings(paths)
	for _, path := range paths {
		pk := c.P.Pkgs[path]
		if !strings.HasPrefix(path, modPath+"/") || strings.Contains(path, "fakes") {
			continue
		}
		for _, f := range pk.Syntax {
			for _, dd := range f.Decls {
				fd, ok := dd.(*ast.FuncDecl)
				if !ok || fd.Body == nil {
					continue
				}
				obj, _ := pk.TypesInfo.Defs[fd.Name].(*types.Func)
				if obj == nil {
					continue
				}
				d := &declInfo{fd: fd, pkg: pk, obj: obj, name: objName(obj)}
				ast.Inspect(fd.Body, func(m ast.Node) bool {
					es, ok := m.(*ast.ExprStmt)
					if !ok {
						return true
					}
					ce, ok := es.X.(*ast.CallExpr)
					if !ok || len(ce.Args) != 1 {
						return true
					}
					fn, _ := typeutil.Callee(pk.TypesInfo, ce).(*types.Func)
					if fn == nil || fn.FullName() != "(*sync.Pool).Put" {
						return true
					}
					n++
					v := objOf(pk, ce.Args[0])
					if v == nil {
						return true
					}
					// references derived from v
					derived := map[types.Object]bool{v: true}
					for changed := true; changed; {
						changed = false
						ast.Inspect(fd.Body, func(k ast.Node) bool {
							as, ok := k.(*ast.AssignStmt)
							if !ok || len(as.Lhs) != len(as.Rhs) {
								return true
							}
							for i, l := range as.Lhs {
								lo := objOf(pk, l)
								if lo == nil || derived[lo] || !isRefType(lo.Type()) {
									continue
								}
								uses := false
								ast.Inspect(as.Rhs[i], func(z ast.Node) bool {
									if id, ok := z.(*ast.Ident); ok && derived[objOf(pk, id)] {
										uses = true
									}
									return !uses
								})
								if uses {
									derived[lo] = true
									changed = true
								}
							}
							return true
						})
					}
					// the region that continues from the Put: the rest of its block, and — unless that
					// block always leaves the function — everything after the block
					chain := enclosing(fd.Body, es)
					var blk *ast.BlockStmt
					for _, y := range chain {
						if b, ok := y.(*ast.BlockStmt); ok {
							blk = b
						}
					}
					limit := fd.Body.End()
					if blk != nil && blk != fd.Body && terminates(blk) {
						limit = blk.End()
					}
					var usePos token.Pos
					var useName string
					ast.Inspect(fd.Body, func(k ast.Node) bool {
						id, ok := k.(*ast.Ident)
						if !ok || id.Pos() <= es.End() || id.Pos() >= limit {
							return true
						}
						if o := objOf(pk, id); o != nil && derived[o] && !usePos.IsValid() {
							usePos, useName = id.Pos(), id.Name
						}
						return true
					})
					key := fmt.Sprintf("%s#Put(%s)", d.name, v.Name())
					if usePos.IsValid() {
						c.bad(R, key, c.P.Pos(usePos), fmt.Sprintf("%s is used after %s was returned to the pool at %s: a concurrent call can obtain the same object and overwrite the memory still being read", useName, v.Name(), c.P.Pos(es.Pos())))
					} else {
						c.ok(R, key, c.P.Pos(es.Pos()), "nothing derived from the pooled value is used after the Put")
					}
					return true
				})
			}
		}
	}
	if n == 0 {
		c.okTrivial(R, "module", "-", "no sync.Pool.Put in the module")
	}
}

// lazyInitRule: package-level state initialised on first use must be initialised under sync.Once
// or a mutex. A function that tests-and-sets a package-level atomic flag and *then* fills
// package-level state publishes "initialised" before the state is there.
func lazyInitRule(c *Ctx) {
	const R = "lazy-init-once"
	c.rule(R, "no function sets a package-level atomic flag (Store/CompareAndSwap/Swap) and afterwards, in the same function, writes package-level state or calls a mutating method on a package-level container: first-use initialisation goes through sync.Once or a mutex, so that callers arriving during initialisation wait for it")
	n := 0
	for _, fn := range c.P.Funcs {
		if isInitFn(fn) || fn.Parent() != nil {
			continue
		}
		fd, pk := c.P.FuncDecl(fnName(fn))
		if fd == nil {
			continue
		}
		var flagPos token.Pos
		flagName := ""
		ast.Inspect(fd.Body, func(m ast.Node) bool {
			ce, ok := m.(*ast.CallExpr)
			if !ok {
				return true
			}
			sel, ok := ce.Fun.(*ast.SelectorExpr)
			if !ok {
				return true
			}
			f, _ := typeutil.Callee(pk.TypesInfo, ce).(*types.Func)
			if f == nil || !strings.HasPrefix(f.FullName(), "(*sync/atomic.") {
				return true
			}
			switch f.Name() {
			case "Store", "CompareAndSwap", "Swap":
			default:
				return true
			}
			id, ok := sel.X.(*ast.Ident)
			if !ok {
				return true
			}
			pv, isVar := pk.TypesInfo.Uses[id].(*types.Var)
			if !isVar || pv.Pkg() == nil || pv.Parent() != pv.Pkg().Scope() {
				return true
			}
			if !flagPos.IsValid() {
				flagPos, flagName = ce.Pos(), id.Name
			}
			return true
		})
		if !flagPos.IsValid() {
			continue
		}
		n++
		// writes to package-level state after the flag was set
		var wpos token.Pos
		what := ""
		ast.Inspect(fd.Body, func(m ast.Node) bool {
			if m == nil || m.Pos() <= flagPos {
				return true
			}
			switch s := m.(type) {
			case *ast.AssignStmt:
				for _, l := range s.Lhs {
					if o, ok := baseObjPkg(pk.TypesInfo, l).(*types.Var); ok && o.Pkg() != nil && o.Parent() == o.Pkg().Scope() && !wpos.IsValid() {
						wpos, what = s.Pos(), "assignment to "+o.Name()
					}
				}
			case *ast.CallExpr:
				if sel, ok := s.Fun.(*ast.SelectorExpr); ok {
					if id, isId := sel.X.(*ast.Ident); isId {
						if pv, isVar := pk.TypesInfo.Uses[id].(*types.Var); isVar && pv.Pkg() != nil && pv.Parent() == pv.Pkg().Scope() && pv.Name() != flagName {
							switch sel.Sel.Name {
							case "Store", "Delete", "LoadOrStore", "Swap", "CompareAndSwap", "Add", "Clear":
								if !wpos.IsValid() {
									wpos, what = s.Pos(), pv.Name()+"."+sel.Sel.Name
								}
							}
						}
					}
				}
			}
			return true
		})
		key := fnName(fn) + "#" + flagName
		if wpos.IsValid() {
			c.bad(R, key, c.P.Pos(wpos), fmt.Sprintf("%s sets the package-level flag %s and then initialises package-level state (%s): a goroutine that sees the flag set returns before the initialisation has finished and finds the state empty", fnName(fn), flagName, what))
		} else {
			c.ok(R, key, c.P.Pos(flagPos), "the flag is not followed by initialisation of package-level state")
		}
	}
	if n == 0 {
		c.okTrivial(R, "module", "-", "no package-level atomic flag is set outside init")
	}
}

func baseObjPkg(info *types.Info, e ast.Expr) types.Object {
	for {
		switch x := e.(type) {
		case *ast.ParenExpr:
			e = x.X
		case *ast.StarExpr:
			e = x.X
		case *ast.SelectorExpr:
			if info.Selections[x] == nil {
				return info.Uses[x.Sel]
			}
			e = x.X
		case *ast.IndexExpr:
			e = x.X
		case *ast.Ident:
			if o := info.Uses[x]; o != nil {
				return o
			}
			return info.Defs[x]
		default:
			return nil
		}
	}
}
