package main

// schema-map-key — the map-valued attributes of the schema (Hashes, Identifiers: enum number →
// value) are read with a key that is an enum number: the key variable of a range over a map, the
// element of a list of collected keys, a conversion of an enum constant or parameter — never the
// position index of a range over a slice or a counting-loop variable. `e.Hashes[int32(i)]` inside
// `for i, algo := range algos` type-checks (both are integers) and reads the wrong entry.

import (
	"fmt"
	"go/ast"
	"go/types"
	"strings"
)

func schemaMapKeyRule(c *Ctx, ds []*declInfo) {
	const R = "schema-map-key"
	c.rule(R, "a lookup in a map-valued field of a schema message (enum number → value) is never keyed by the position variable of a range over a slice/array/string or by the induction variable of a counting loop")
	for _, d := range ds {
		info := d.pkg.TypesInfo
		// position variables: keys of ranges over non-maps, and variables of `for i := …; …; i++`
		posVar := map[types.Object]string{}
		ast.Inspect(d.fd.Body, func(n ast.Node) bool {
			switch s := n.(type) {
			case *ast.RangeStmt:
				t := info.TypeOf(s.X)
				if t == nil || s.Key == nil {
					return true
				}
				switch t.Underlying().(type) {
				case *types.Map, *types.Chan, *types.Signature:
					return true
				}
				if o := objOf(d.pkg, s.Key); o != nil {
					posVar[o] = "the position index of the range over " + normText(exprText(c.P.Fset, s.X))
				}
			case *ast.ForStmt:
				if as, ok := s.Init.(*ast.AssignStmt); ok {
					for _, l := range as.Lhs {
						if o := objOf(d.pkg, l); o != nil {
							posVar[o] = "the induction variable of a counting loop"
						}
					}
				}
			}
			return true
		})
		n, bad := 0, 0
		ast.Inspect(d.fd.Body, func(m ast.Node) bool {
			ix, ok := m.(*ast.IndexExpr)
			if !ok {
				return true
			}
			mt := info.TypeOf(ix.X)
			if mt == nil {
				return true
			}
			if _, isMap := mt.Underlying().(*types.Map); !isMap {
				return true
			}
			// a field of a schema message, read directly or through its generated getter
			field := ""
			switch x := ix.X.(type) {
			case *ast.SelectorExpr:
				if sel := info.Selections[x]; sel != nil && sel.Kind() == types.FieldVal && isSchemaMessage(sel.Recv()) {
					field = x.Sel.Name
				}
			case *ast.CallExpr:
				if se, ok := x.Fun.(*ast.SelectorExpr); ok && strings.HasPrefix(se.Sel.Name, "Get") && len(x.Args) == 0 {
					if sel := info.Selections[se]; sel != nil && isSchemaMessage(sel.Recv()) {
						field = strings.TrimPrefix(se.Sel.Name, "Get")
					}
				}
			}
			if field == "" {
				return true
			}
			n++
			var culprit string
			ast.Inspect(ix.Index, func(k ast.Node) bool {
				if id, ok := k.(*ast.Ident); ok {
					if why, isPos := posVar[objOf(d.pkg, id)]; isPos {
						culprit = id.Name + " is " + why
					}
				}
				return culprit == ""
			})
			if culprit != "" {
				bad++
				c.bad(R, fmt.Sprintf("%s#%s", d.name, field), c.P.Pos(ix.Pos()), fmt.Sprintf("%s is keyed by a list position (%s), not by an enum number taken from the map: the wrong entry (or none) is read", normText(exprText(c.P.Fset, ix)), culprit))
			}
			return true
		})
		if n > 0 && bad == 0 {
			c.ok(R, d.name, c.P.Pos(d.fd.Pos()), fmt.Sprintf("%d lookups in schema maps, none keyed by a position", n))
		}
	}
}

func isSchemaMessage(t types.Type) bool {
	if p, ok := t.Underlying().(*types.Pointer); ok {
		t = p.Elem()
	}
	n, ok := t.(*types.Named)
	if !ok || n.Obj().Pkg() == nil || !strings.HasSuffix(n.Obj().Pkg().Path(), "/pkg/sbom") {
		return false
	}
	switch n.Obj().Name() {
	case "Node", "Edge", "Person", "ExternalReference", "NodeList", "Document", "Metadata", "Tool", "DocumentType":
		return true
	}
	return false
}

// enumNameTableRule: the generated `<Enum>_name` tables map only the declared numbers; a lookup
// yields "" for every other number, so an encoding built from it cannot tell unknown numbers apart
// (Enum.String() falls back to the number itself and stays injective).
func enumNameTableRule(c *Ctx, ds []*declInfo) {
	const R = "enum-encoded-injectively"
	c.rule(R, "an equality encoder never renders an enum through the generated <Enum>_name map (missing numbers all read as the empty string); it uses String() or the number")
	for _, d := range ds {
		n := 0
		ast.Inspect(d.fd.Body, func(m ast.Node) bool {
			ix, ok := m.(*ast.IndexExpr)
			if !ok {
				return true
			}
			var obj types.Object
			switch x := ix.X.(type) {
			case *ast.Ident:
				obj = d.pkg.TypesInfo.Uses[x]
			case *ast.SelectorExpr:
				obj = d.pkg.TypesInfo.Uses[x.Sel]
			}
			pv, isVar := obj.(*types.Var)
			if !isVar || pv.Pkg() == nil || pv.Parent() != pv.Pkg().Scope() || !strings.HasSuffix(pv.Name(), "_name") {
				return true
			}
			// comma-ok lookups can tell a miss from a hit
			for _, y := range enclosing(d.fd.Body, ix) {
				if as, isAs := y.(*ast.AssignStmt); isAs && len(as.Lhs) == 2 && len(as.Rhs) == 1 && as.Rhs[0] == ast.Expr(ix) {
					return true
				}
			}
			n++
			c.bad(R, d.name+"#"+pv.Name(), c.P.Pos(ix.Pos()), fmt.Sprintf("%s renders an enum through %s: every number without a generated name becomes the empty string, so values differing only in such numbers get the same encoding (and the same checksum)", d.name, pv.Name()))
			return true
		})
		if n == 0 {
			c.okTrivial(R, d.name, c.P.Pos(d.fd.Pos()), "no enum name-table lookup")
		}
	}
}
