package main

// E8 — forbidden-callee reachability over the call graph (CHA seed refined by VTA), and
// E7 — package-level state discipline (classification + lock sets over SSA blocks).

import (
	"fmt"
	"go/token"
	"go/types"
	"sort"
	"strings"

	"golang.org/x/tools/go/callgraph"
	"golang.org/x/tools/go/callgraph/cha"
	"golang.org/x/tools/go/callgraph/vta"
	"golang.org/x/tools/go/ssa"
	"golang.org/x/tools/go/ssa/ssautil"
)

var cgCache = map[*Program]*callgraph.Graph{}

func (c *Ctx) callGraph() *callgraph.Graph {
	if g, ok := cgCache[c.P]; ok {
		return g
	}
	g := vta.CallGraph(ssautil.AllFunctions(c.P.SSA), cha.CallGraph(c.P.SSA))
	cgCache[c.P] = g
	return g
}

// reachSSA returns module functions reachable from the roots, with one predecessor each.
func (c *Ctx) reachSSA(roots []*ssa.Function) (map[*ssa.Function]*ssa.Function, []*ssa.Function) {
	g := c.callGraph()
	pred := map[*ssa.Function]*ssa.Function{}
	var order []*ssa.Function
	var queue []*ssa.Function
	for _, r := range roots {
		if _, ok := pred[r]; !ok {
			pred[r] = nil
			queue = append(queue, r)
		}
	}
	for len(queue) > 0 {
		f := queue[0]
		queue = queue[1:]
		order = append(order, f)
		c.sawFunc(fnName(f))
		n := g.Nodes[f]
		var outs []*ssa.Function
		if n != nil {
			for _, e := range n.Out {
				if e.Callee != nil && e.Callee.Func != nil {
					outs = append(outs, e.Callee.Func)
				}
			}
		}
		// anonymous functions are reachable from their parents
		outs = append(outs, f.AnonFuncs...)
		for _, t := range outs {
			tt := t
			if o := t.Origin(); o != nil {
				tt = o
			}
			if !c.P.inModule(tt) || tt.Blocks == nil {
				continue
			}
			if strings.Contains(fnPkgPath(tt), "fakes") {
				continue // counterfeiter doubles are test scaffolding, never registered by the library
			}
			if _, ok := pred[tt]; !ok {
				pred[tt] = f
				queue = append(queue, tt)
			}
		}
	}
	return pred, order
}

func chainTo(pred map[*ssa.Function]*ssa.Function, f *ssa.Function) string {
	var parts []string
	for x := f; x != nil; x = pred[x] {
		parts = append([]string{fnName(x)}, parts...)
		if len(parts) > 8 {
			break
		}
	}
	return strings.Join(parts, " → ")
}

func (c *Ctx) rootsOf(rule string, names []string) []*ssa.Function {
	var out []*ssa.Function
	for _, n := range names {
		if f := c.P.Func(n); f != nil {
			out = append(out, f)
		} else {
			c.undecided(rule, "anchor:"+n, "-", "entry point not found in the current tree")
		}
	}
	return out
}

func calleeFullName(cc *ssa.CallCommon) string {
	if sc := cc.StaticCallee(); sc != nil {
		if o := sc.Origin(); o != nil {
			return o.String()
		}
		return sc.String()
	}
	if cc.IsInvoke() {
		return "(" + cc.Value.Type().String() + ")." + cc.Method.Name()
	}
	return ""
}

func isProcessExit(name string) bool {
	switch {
	case name == "os.Exit", name == "runtime.Goexit", name == "syscall.Exit":
		return true
	case strings.HasPrefix(name, "log.Fatal"), strings.HasPrefix(name, "log.Panic"):
		return true
	case strings.HasPrefix(name, "(*log.Logger).Fatal"), strings.HasPrefix(name, "(*log.Logger).Panic"):
		return true
	case strings.HasPrefix(name, "github.com/sirupsen/logrus.Fatal"), strings.HasPrefix(name, "github.com/sirupsen/logrus.Panic"):
		return true
	case strings.HasPrefix(name, "(*github.com/sirupsen/logrus.Logger).Fatal"), strings.HasPrefix(name, "(*github.com/sirupsen/logrus.Logger).Panic"),
		strings.HasPrefix(name, "(*github.com/sirupsen/logrus.Entry).Fatal"), strings.HasPrefix(name, "(*github.com/sirupsen/logrus.Entry).Panic"):
		return true
	}
	return false
}

// noExitRule: no process-terminating call and no explicit panic is reachable from the entries.
func noExitRule(c *Ctx, entries []string) {
	const R = "no-process-exit"
	c.rule(R, "no call-graph path (VTA over a CHA seed; interface calls resolved to the implementations that flow there) from a public entry point reaches os.Exit, log.Fatal*/Panic*, logrus Fatal*/Panic*, runtime.Goexit, an explicit panic in module code, or a third-party Must* function (panics where its sibling returns an error) applied to a non-constant operand")
	roots := c.rootsOf(R, entries)
	pred, order := c.reachSSA(roots)
	found := 0
	for _, f := range order {
		var all []*ssa.Function
		all = append(all, f)
		for _, fn := range all {
			for _, b := range fn.Blocks {
				for _, ins := range b.Instrs {
					c.CallSites++
					switch x := ins.(type) {
					case *ssa.Panic:
						found++
						c.bad(R, fnName(f)+"#panic", c.P.Pos(x.Pos()), fmt.Sprintf("explicit panic reachable from a public entry point via %s", chainTo(pred, f)))
					case ssa.CallInstruction:
						name := calleeFullName(x.Common())
						if isProcessExit(name) {
							found++
							c.bad(R, fnName(f)+"#"+shortCallee(name), c.P.Pos(x.Pos()), fmt.Sprintf("%s terminates the process; reachable from a public entry point via %s", name, chainTo(pred, f)))
						} else if sc := x.Common().StaticCallee(); sc != nil && strings.HasPrefix(sc.Name(), "Must") && (sc.Pkg == nil || !strings.HasPrefix(sc.Pkg.Pkg.Path(), modPath)) {
							// the library convention: MustX panics where X returns an error; with an operand
							// that is not a constant the panic is the caller's input away
							allConst := true
							for _, a := range x.Common().Args {
								if _, isC := a.(*ssa.Const); !isC {
									allConst = false
								}
							}
							if !allConst {
								found++
								c.bad(R, fnName(f)+"#"+shortCallee(name), c.P.Pos(x.Pos()), fmt.Sprintf("%s panics when its (non-constant) operand is not well-formed; reachable from a public entry point via %s", name, chainTo(pred, f)))
							}
						}
					}
				}
			}
		}
	}
	for _, r := range roots {
		c.ok(R, "entry:"+fnName(r), c.P.Pos(r.Pos()), fmt.Sprintf("explored %d reachable module functions", len(order)))
	}
	_ = found
}

func shortCallee(name string) string {
	name = strings.ReplaceAll(name, "github.com/sirupsen/", "")
	name = strings.ReplaceAll(name, "github.com/google/", "")
	return name
}

func isNondetSource(name string) bool {
	switch {
	case strings.HasPrefix(name, "github.com/google/uuid.New"), name == "time.Now", strings.HasPrefix(name, "math/rand."), strings.HasPrefix(name, "math/rand/v2."),
		strings.HasPrefix(name, "crypto/rand."), name == "os.Getpid", name == "os.Hostname", name == "os.Getenv", name == "os.Environ",
		name == "google.golang.org/protobuf/types/known/timestamppb.Now", name == "time.Since", name == "time.Until":
		return true
	}
	return false
}

// nondetRule: every nondeterminism source reachable from the entries is in the allowance table
// keyed by (containing function, callee).
func nondetRule(c *Ctx, entries []string, allowed map[string]string) {
	const R = "nondeterminism-source"
	c.rule(R, "every call to uuid.New*, time.Now, math/rand, crypto/rand, os.Getpid/Hostname/Getenv reachable from the entry points is listed, by containing function and callee, in the property's allowance table with its reason")
	roots := c.rootsOf(R, entries)
	pred, order := c.reachSSA(roots)
	seen := map[string]bool{}
	for _, f := range order {
		for _, b := range f.Blocks {
			for _, ins := range b.Instrs {
				ci, ok := ins.(ssa.CallInstruction)
				if !ok {
					continue
				}
				name := calleeFullName(ci.Common())
				if !isNondetSource(name) {
					continue
				}
				key := fnName(f) + "→" + shortCallee(name)
				// qualify by the struct field the value is stored into, so that a second use of an
				// allowed source for another purpose is a different obligation
				if sink := c.sinkField(f, ins.Pos()); sink != "" {
					key += "@" + sink
				}
				if seen[key] {
					continue
				}
				seen[key] = true
				if why, ok := allowed[key]; ok {
					c.ok(R, key, c.P.Pos(ins.Pos()), "allowed: "+why)
				} else {
					c.bad(R, key, c.P.Pos(ins.Pos()), fmt.Sprintf("%s is a nondeterminism source reachable via %s and is not in the allowance table: two runs on the same input can differ", name, chainTo(pred, f)))
				}
			}
		}
	}
	for k := range allowed {
		if !seen[k] {
			c.info("allowance %s no longer matches any call (harmless)", k)
		}
	}
}

// ---- E7: package-level variables ----

type globalInfo struct {
	g      *ssa.Global
	class  string // sync | regexp | generated | init-only | guarded | unguarded
	reason string
}

var syncTypes = map[string]bool{
	"sync.Mutex": true, "sync.RWMutex": true, "sync.Map": true, "sync.Once": true, "sync.WaitGroup": true, "sync.Pool": true,
	"sync/atomic.Value": true, "sync/atomic.Int32": true, "sync/atomic.Int64": true, "sync/atomic.Bool": true, "sync/atomic.Pointer": true,
}

// mutexFor is the variable ↔ mutex association inferred by stateDiscipline on the analysed tree
// (a mutex held at some access of the variable guards it).
var mutexFor = map[string]string{}

func globalName(g *ssa.Global) string { return g.Pkg.Pkg.Name() + "." + g.Name() }

type access struct {
	fn    *ssa.Function
	ins   ssa.Instruction
	write bool
	held  map[string]string // mutex global name -> "w" | "r"
}

// lockStates computes, per instruction, the set of package-level mutexes held (must analysis).
func lockStates(fn *ssa.Function) map[ssa.Instruction]map[string]string {
	type state map[string]string
	in := map[*ssa.BasicBlock]state{}
	out := map[ssa.Instruction]map[string]string{}
	mutexOf := func(cc *ssa.CallCommon) (string, string) {
		sc := cc.StaticCallee()
		if sc == nil || len(cc.Args) == 0 {
			return "", ""
		}
		full := sc.String()
		var op string
		switch full {
		case "(*sync.Mutex).Lock", "(*sync.RWMutex).Lock":
			op = "lock"
		case "(*sync.RWMutex).RLock":
			op = "rlock"
		case "(*sync.Mutex).Unlock", "(*sync.RWMutex).Unlock":
			op = "unlock"
		case "(*sync.RWMutex).RUnlock":
			op = "runlock"
		default:
			return "", ""
		}
		if g, ok := cc.Args[0].(*ssa.Global); ok {
			return globalName(g), op
		}
		return "", ""
	}
	copyS := func(s state) state {
		n := state{}
		for k, v := range s {
			n[k] = v
		}
		return n
	}
	meetS := func(a, b state) state {
		n := state{}
		for k, v := range a {
			if w, ok := b[k]; ok {
				if v == w {
					n[k] = v
				} else {
					n[k] = "r"
				}
			}
		}
		return n
	}
	if len(fn.Blocks) == 0 {
		return out
	}
	in[fn.Blocks[0]] = state{}
	changed := true
	for iter := 0; changed && iter < 50; iter++ {
		changed = false
		for _, b := range fn.Blocks {
			s, ok := in[b]
			if !ok {
				continue
			}
			cur := copyS(s)
			for _, ins := range b.Instrs {
				out[ins] = copyS(cur)
				switch x := ins.(type) {
				case *ssa.Call:
					if m, op := mutexOf(x.Common()); m != "" {
						switch op {
						case "lock":
							cur[m] = "w"
						case "rlock":
							cur[m] = "r"
						case "unlock", "runlock":
							delete(cur, m)
						}
					}
				case *ssa.Defer:
					// deferred unlock keeps the lock until the function returns
				}
			}
			for _, succ := range b.Succs {
				if old, ok := in[succ]; !ok {
					in[succ] = copyS(cur)
					changed = true
				} else {
					m := meetS(old, cur)
					if len(m) != len(old) {
						in[succ] = m
						changed = true
					} else {
						for k, v := range m {
							if old[k] != v {
								in[succ] = m
								changed = true
							}
						}
					}
				}
			}
		}
	}
	return out
}

// globalAccesses lists direct accesses to g and accesses through the reference loaded from it.
func globalAccesses(p *Program, g *ssa.Global) []access {
	var out []access
	for _, fn := range p.Funcs {
		var loaded []ssa.Value
		uses := false
		for _, b := range fn.Blocks {
			for _, ins := range b.Instrs {
				for _, op := range ins.Operands(nil) {
					if *op == ssa.Value(g) {
						uses = true
					}
				}
			}
		}
		if !uses {
			continue
		}
		ls := lockStates(fn)
		derived := map[ssa.Value]bool{}
		for _, b := range fn.Blocks {
			for _, ins := range b.Instrs {
				switch x := ins.(type) {
				case *ssa.UnOp:
					if x.Op == token.MUL && x.X == ssa.Value(g) {
						out = append(out, access{fn, ins, false, ls[ins]})
						derived[x] = true
						loaded = append(loaded, x)
					}
				case *ssa.Store:
					if x.Addr == ssa.Value(g) {
						out = append(out, access{fn, ins, true, ls[ins]})
					}
				}
			}
		}
		// accesses through the loaded reference (maps, pointers, slices)
		for changed := true; changed; {
			changed = false
			for _, b := range fn.Blocks {
				for _, ins := range b.Instrs {
					v, isVal := ins.(ssa.Value)
					usesDerived := false
					for _, op := range ins.Operands(nil) {
						if *op != nil && derived[*op] {
							usesDerived = true
						}
					}
					if !usesDerived {
						continue
					}
					switch x := ins.(type) {
					case *ssa.MapUpdate:
						if derived[x.Map] {
							out = appendOnce(out, access{fn, ins, true, ls[ins]})
						}
					case *ssa.Lookup:
						if derived[x.X] {
							out = appendOnce(out, access{fn, ins, false, ls[ins]})
						}
					case *ssa.Range:
						out = appendOnce(out, access{fn, ins, false, ls[ins]})
						if isVal && !derived[v] {
							derived[v] = true
							changed = true
						}
					case *ssa.Next:
						out = appendOnce(out, access{fn, ins, false, ls[ins]})
					case *ssa.FieldAddr, *ssa.IndexAddr:
						if isVal && !derived[v] {
							derived[v] = true
							changed = true
						}
					case *ssa.Store:
						if derived[x.Addr] {
							out = appendOnce(out, access{fn, ins, true, ls[ins]})
						}
					case *ssa.UnOp:
						if x.Op == token.MUL && derived[x.X] {
							out = appendOnce(out, access{fn, ins, false, ls[ins]})
						}
					case *ssa.Call:
						if b, ok := x.Common().Value.(*ssa.Builtin); ok && (b.Name() == "delete" || b.Name() == "clear") {
							out = appendOnce(out, access{fn, ins, true, ls[ins]})
						}
					}
				}
			}
		}
		_ = loaded
	}
	return out
}

func appendOnce(as []access, a access) []access {
	for _, x := range as {
		if x.ins == a.ins {
			return as
		}
	}
	return append(as, a)
}

func isInitFn(fn *ssa.Function) bool {
	top := topOf(fn)
	return top.Name() == "init" || strings.HasPrefix(top.Name(), "init#") || top.Synthetic == "package initializer"
}

// stateDiscipline classifies every package-level variable of the given packages.
func stateDiscipline(c *Ctx, rule string, pkgRels []string, o *origins) map[*ssa.Global]*globalInfo {
	res := map[*ssa.Global]*globalInfo{}
	for _, rel := range pkgRels {
		sp := c.P.SPkgs[modPath+"/"+rel]
		if sp == nil {
			c.undecided(rule, "anchor:"+rel, "-", "package not loaded")
			continue
		}
		var names []string
		for name, m := range sp.Members {
			if _, ok := m.(*ssa.Global); ok {
				names = append(names, name)
			}
		}
		sort.Strings(names)
		for _, name := range names {
			g := sp.Members[name].(*ssa.Global)
			if name == "init$guard" || strings.HasSuffix(c.P.Fset.Position(g.Pos()).Filename, ".pb.go") {
				continue // generated protobuf registration state: written once by generated init code
			}
			gi := &globalInfo{g: g}
			res[g] = gi
			t := g.Type().(*types.Pointer).Elem()
			ts := types.TypeString(t, nil)
			construct := globalName(g)
			pos := c.P.Pos(g.Pos())
			switch {
			case syncTypes[ts]:
				gi.class, gi.reason = "sync", "synchronisation primitive "+ts
				c.okTrivial(rule, construct, pos, gi.reason)
				continue
			case ts == "*regexp.Regexp":
				gi.class, gi.reason = "regexp", "*regexp.Regexp is safe for concurrent use and only assigned during initialisation"
			}
			accs := globalAccesses(c.P, g)
			// writes outside init: direct stores, stores through, and (from the origin analysis) writes in callees
			var nonInitWrites []access
			for _, a := range accs {
				if a.write && !isInitFn(a.fn) {
					nonInitWrites = append(nonInitWrites, a)
				}
			}
			var deepWrites []string
			if o != nil {
				for fn, s := range o.sums {
					if isInitFn(fn) {
						continue
					}
					for _, m := range s.muts {
						if m.param < 0 && m.glob == g && m.via == "" {
							deepWrites = append(deepWrites, fmt.Sprintf("%s at %s in %s", m.what, c.P.Pos(m.pos), fnName(fn)))
						}
					}
				}
				sort.Strings(deepWrites)
			}
			// the guarding mutex is inferred, not named: if any access outside init holds a
			// package-level mutex, that mutex guards the variable and every access must hold it
			mname := ""
			{
				cnt := map[string]int{}
				for _, a := range accs {
					if isInitFn(a.fn) {
						continue
					}
					for m := range a.held {
						cnt[m]++
					}
				}
				best := 0
				var ms []string
				for m := range cnt {
					ms = append(ms, m)
				}
				sort.Strings(ms)
				for _, m := range ms {
					if cnt[m] > best {
						best, mname = cnt[m], m
					}
				}
			}
			if mname != "" && (len(nonInitWrites) > 0 || len(deepWrites) > 0) {
				mutexFor[construct] = mname
				gi.class = "guarded"
				bad := false
				n := 0
				for _, a := range accs {
					if isInitFn(a.fn) {
						continue
					}
					n++
					mode := a.held[mname]
					okAcc := mode == "w" || (!a.write && mode == "r")
					akind := "read"
					if a.write {
						akind = "write"
					}
					site := fmt.Sprintf("%s@%s#%s", construct, fnName(a.fn), akind)
					if okAcc {
						c.ok(rule, site, c.P.Pos(a.ins.Pos()), fmt.Sprintf("%s of %s holds %s (%s)", akind, construct, mname, mode))
					} else {
						bad = true
						c.bad(rule, site, c.P.Pos(a.ins.Pos()), fmt.Sprintf("%s of %s in %s does not hold %s (lock set %v) while other accesses do: concurrent registration and lookup race on the map", akind, construct, fnName(a.fn), mname, a.held))
					}
				}
				if !bad {
					gi.reason = fmt.Sprintf("all %d access sites hold %s", n, mname)
				}
				continue
			}
			if len(nonInitWrites) == 0 && len(deepWrites) == 0 {
				if gi.class == "" {
					gi.class = "init-only"
					gi.reason = "only written during package initialisation; never written through afterwards"
				}
				c.ok(rule, construct, pos, gi.reason)
				continue
			}
			gi.class = "unguarded"
			var sites []string
			for _, a := range nonInitWrites {
				sites = append(sites, fmt.Sprintf("%s at %s", fnName(a.fn), c.P.Pos(a.ins.Pos())))
			}
			sites = append(sites, deepWrites...)
			if len(sites) > 5 {
				sites = append(sites[:5], "…")
			}
			wp := pos
			if len(nonInitWrites) > 0 {
				wp = c.P.Pos(nonInitWrites[0].ins.Pos())
			}
			gi.reason = "written after initialisation without a lock: " + strings.Join(sites, "; ")
			c.bad(rule, construct, wp, fmt.Sprintf("package-level variable %s (%s) is %s", construct, ts, gi.reason))
		}
	}
	return res
}

// sinkField names the struct field (keyed literal element or assignment target) whose value
// contains the call at pos, "" when the call is not part of a field initialisation.
func (c *Ctx) sinkField(fn *ssa.Function, pos token.Pos) string {
	top := topOf(fn)
	fd, pk := c.P.FuncDecl(fnName(top))
	if fd == nil || !pos.IsValid() {
		return ""
	}
	out := ""
	for _, fi := range fieldInits(pk, fd.Body) {
		if fi.value.Pos() <= pos && pos <= fi.value.End() {
			out = fi.field.Name()
		}
	}
	return out
}
