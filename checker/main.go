// protolint: repository-specific static checker for the C01–C20 properties of bom-squad/protobom.
// It loads the current working tree of -repo with go/packages on every run, builds SSA, and
// evaluates the structural rules of one property. Nothing from the repository is executed.
package main

import (
	"flag"
	"fmt"
	"os"
	"path/filepath"
	"runtime/debug"
	"sort"
	"strconv"
	"strings"
	"time"
)

type propDef struct {
	run         func(c *Ctx)
	explanation string
}

var props = map[string]*propDef{}

func register(id, explanation string, run func(c *Ctx)) {
	props[id] = &propDef{run: run, explanation: explanation}
}

type multiFlag []string

func (m *multiFlag) String() string     { return strings.Join(*m, ",") }
func (m *multiFlag) Set(s string) error { *m = append(*m, s); return nil }

func main() {
	var (
		repo     = flag.String("repo", "/repo", "repository working tree to analyse")
		verif    = flag.String("verif", "/verif", "verification directory (evidence, known findings)")
		prop     = flag.String("property", "", "property id (C01..C20)")
		tier     = flag.String("tier", "quick", "quick | thorough")
		only     = flag.String("only", "", "print only the obligation with this key")
		list     = flag.Bool("list", false, "print every obligation")
		noEv     = flag.Bool("no-evidence", false, "do not write evidence (self-test subprocesses)")
		dumpR    = flag.String("dump-roles", "", "development aid: write the role table of the unexported functions to this file and exit")
		overlays multiFlag
	)
	flag.Var(&overlays, "overlay", "path=replacementfile (repeatable): analyse with file replaced in memory")
	flag.Parse()
	start := time.Now()

	if *dumpR != "" {
		p, err := loadProgram(*repo, nil)
		if err != nil {
			fmt.Fprintln(os.Stderr, err)
			os.Exit(2)
		}
		if err := dumpRoles(p, *dumpR); err != nil {
			fmt.Fprintln(os.Stderr, err)
			os.Exit(2)
		}
		return
	}
	pd := props[*prop]
	if pd == nil {
		var ids []string
		for id := range props {
			ids = append(ids, id)
		}
		sort.Strings(ids)
		fmt.Fprintf(os.Stderr, "unknown property %q; have %v\n", *prop, ids)
		os.Exit(2)
	}
	seed := 0
	if s := os.Getenv("VERIF_SEED"); s != "" {
		seed, _ = strconv.Atoi(s)
	}
	ov := map[string][]byte{}
	for _, o := range overlays {
		i := strings.Index(o, "=")
		if i < 0 {
			fmt.Fprintf(os.Stderr, "bad -overlay %q\n", o)
			os.Exit(2)
		}
		b, err := os.ReadFile(o[i+1:])
		if err != nil {
			fmt.Fprintln(os.Stderr, err)
			os.Exit(2)
		}
		p := o[:i]
		if !filepath.IsAbs(p) {
			p = filepath.Join(*repo, p)
		}
		ov[p] = b
	}
	if len(ov) == 0 {
		ov = nil
	}

	p, err := loadProgram(*repo, ov)
	if err != nil {
		fmt.Fprintf(os.Stderr, "protolint: cannot load %s: %v\n", *repo, err)
		os.Exit(2)
	}
	theProgram = p
	renameNotes := resolveRenames(p, filepath.Join(*verif, "roles.json"))
	c := newCtx(*prop, *tier, p)
	for _, n := range renameNotes {
		c.info("%s", n)
	}
	code := func() (code int) {
		defer func() {
			if r := recover(); r != nil {
				// A checker panic is a checker fault, never a silent pass.
				fmt.Fprintf(os.Stderr, "protolint: internal error in %s: %v\n%s\n", *prop, r, debug.Stack())
				c.undecided("internal", "checker-panic", "-", fmt.Sprint(r))
			}
		}()
		pd.run(c)
		return 0
	}()
	_ = code
	extra := map[string]any{}
	if *tier == "thorough" {
		selfTest(c, *repo, *verif, extra)
	}
	if *only != "" || *list {
		for _, o := range c.Obls {
			if *list || o.Key == *only {
				fmt.Printf("%-10s %s  %s  %s\n", o.Status, o.Key, o.Pos, o.Msg)
			}
		}
	}
	if *noEv {
		// self-test mode: print verdict lines only
		rc := 0
		for _, o := range c.Obls {
			if o.Status != stDischarged {
				fmt.Printf("FIRED %s %s %s\n", o.Status, o.Key, o.Pos)
				rc = 1
			}
		}
		os.Exit(rc)
	}
	os.Exit(c.finish(*verif, seed, start, pd.explanation, extra))
}
