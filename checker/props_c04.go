package main

func init() {
	register("C04", "Parsers total on untrusted input — structural necessary conditions: (D1) in every module function reachable from the two Unserialize methods, the sniffer and ParseStream*, each panicking operation (field access/method call through a pointer, *p, range *p, constant index, single-value type assertion, passing a value to a function that dereferences it) on a possibly-absent part of the decoded document is dominated by a guard on the same access path; (D2) every return of the parser entry points is (nil, known-non-nil error) or (document with metadata and node list, nil); (D3) no process-terminating call is reachable; (D4) loops and recursion are well-founded; (D5) no self-referential string accumulation in a loop. Third-party decoders are trusted, not analysed.", runC04)
	register("C07", "Serializers total and deterministic — structural necessary conditions: (D1) every panicking operation on an optional part of the document (absent metadata / node list / nil list elements / optional document-type fields / nil options / untyped native document) in functions reachable from Serialize, Render and WriteStream* is dominated by a guard; (D2) serializers keep no state between calls: they neither write their receiver nor touch package-level variables that are not init-only; (D3) the only nondeterminism source reachable is the creation timestamp; (D4) loops and recursion are well-founded; (D5) no process-terminating call is reachable.", runC07)
}

var parserEntries = []string{cdxUnser, spdxUnser, "formats.(*Sniffer).SniffReader", "formats.(*Sniffer).SniffFile",
	"reader.(*Reader).ParseStreamWithOptions", "reader.(*Reader).ParseStream", "reader.(*Reader).ParseFile", "reader.(*Reader).ParseFileWithOptions", "reader.GetFormatUnserializer"}

var serializerEntries = []string{cdxSer, spdxSer, "beta.(*SPDX3).Serialize", "serializers.(*CDX).Render", "serializers.(*SPDX23).Render", "beta.(*SPDX3).Render",
	"writer.(*Writer).WriteStreamWithOptions", "writer.(*Writer).WriteStream", "writer.(*Writer).WriteFile", "writer.(*Writer).WriteFileWithOptions", "writer.GetFormatSerializer"}

const guardRuleText = "every panicking operation whose operand may be absent (pointer/interface field of a decoded struct, element of a decoded []*T, result of a module function that may return nil, pointer parameter of a public entry point, local declared without a value) is dominated — through if-conditions with polarity, short-circuit operators, early exits — by a nil/length/type fact about the same access path; facts are killed by assignment to the path"

func runC04(c *Ctx) {
	const R = "absent-part-guard"
	c.rule(R, guardRuleText)
	c.assume("tools-golang, cyclonedx-go and encoding/json do not panic and terminate on arbitrary input (not analysed) — except where the frozen table knownPanickingExternals records a demonstrated panic, which must then be contained by the caller")
	c.assume("tools-golang strips null entries from the relationships array while decoding (document.go); elements of Packages, Files and external references may be nil")
	c.assume("facts about an access path are not invalidated by calls (a callee that resets the part would be missed)")
	c.notDecided("totality and complexity of the third-party decoders; polynomial bounds in general")
	untrustedStructPkgs = decodedNativePkgs
	e := newNilEngine(c)
	e.entry["reader.(*Reader).ParseStreamWithOptions"] = true
	e.entry["reader.(*Reader).ParseFileWithOptions"] = true
	for _, t := range []string{"reader.(*Reader).ParseStreamWithOptions#f"} {
		e.trusted[t] = true
	}
	ds := c.reachDecls(R, parserEntries...)
	for _, d := range ds {
		e.analyse(d)
	}
	e.emit(R)
	c.floor(R, 20, "pointer-field dereferences and constant indices in the two readers")
	resultDiscipline(c, []string{cdxUnser, spdxUnser, "reader.(*Reader).ParseStreamWithOptions", "reader.(*Reader).detectFormat", "formats.(*Sniffer).SniffReader", "reader.GetFormatUnserializer"})
	noExitRule(c, parserEntries)
	panickingDecoderContained(c, parserEntries)
	noLockReentry(c, parserEntries)
	searchOffsetBounded(c, "search-offset-bounded", "pkg/formats", "pkg/reader", "pkg/native/unserializers")
	wellFounded(c, parserEntries)
	nilMapWriteRule(c, parserEntries)
	// "never … return both or neither" for format detection: no (empty format, nil error)
	detectionResult(c)
	geometricAccumulation(c, ds)
}

func runC07(c *Ctx) {
	const R = "absent-part-guard"
	c.rule(R, guardRuleText)
	c.assume("third-party encoders (cyclonedx-go BOMEncoder, encoding/json) do not panic on the native documents the serializers build")
	c.notDecided("byte equality of two outputs up to set order; output for unknown enum numbers beyond table defaults")
	untrustedStructPkgs = protobomMessagePkgs
	e := newNilEngine(c)
	for _, n := range serializerEntries {
		e.entry[n] = true
	}
	for _, t := range []string{"writer.(*Writer).WriteStreamWithOptions#wr", "writer.(*Writer).WriteStream#wr",
		"serializers.(*CDX).Render#wr", "serializers.(*SPDX23).Render#wr", "beta.(*SPDX3).Render#wr"} {
		e.trusted[t] = true
	}
	ds := c.reachDecls(R, serializerEntries...)
	for _, d := range ds {
		e.analyse(d)
	}
	e.emit(R)
	c.floor(R, 20, "optional-part dereferences in the three serializers and the writer")
	serializerState(c)
	noExitRule(c, serializerEntries)
	wellFounded(c, serializerEntries)
	nilMapWriteRule(c, serializerEntries)
	mapOrderRule(c, ds)
	noGoroutines(c, "drivers-sequential", ds, "serializer entry points")
	nestingAcyclic(c)
	noLockReentry(c, serializerEntries)
}
